// ---- prelude/tree_lemmas.rs : proved lemmas about the arena invariant (used by every unit that mutates trees) ----
// two arenas with the same domain and the same links (values may differ)
pub open spec fn same_shape<N, const K: usize>(a0: Arena<N, K>, a1: Arena<N, K>) -> bool {
    a0.dom() =~= a1.dom() && forall|i: usize| #![trigger a1[i]] a0.dom().contains(i) ==>
        a0[i].parent == a1[i].parent && a0[i].children == a1[i].children && a0[i].isleaf == a1[i].isleaf
}

pub proof fn lemma_same_shape_wf<N, const K: usize>(a0: Arena<N, K>, a1: Arena<N, K>, root: Option<usize>)
    requires wf_at(a0, root), same_shape(a0, a1)
    ensures wf_at(a1, root)
{
    let d = choose|d: Map<usize, nat>| ranked(a0, d);
    assert(ranked(a1, d)) by {
        assert forall|c: usize| a1.dom().contains(c) && (#[trigger] a1[c].parent).is_some() implies d[a1[c].parent.unwrap()] < d[c] by {
            assert(a0[c].parent == a1[c].parent);
        }
    }
    let h = choose|h: Map<usize, nat>| ranked_down(a0, h);
    assert(ranked_down(a1, h)) by {
        assert forall|i: usize, l: int| a1.dom().contains(i) && 0 <= l < K && (#[trigger] a1[i].children[l]).is_some() implies h[a1[i].children[l].unwrap()] < h[i] by {
            assert(a0[i].children[l] == a1[i].children[l]);
        }
    }
    assert(kids_ok(a1)) by {
        assert forall|i: usize, l: int| a1.dom().contains(i) && 0 <= l < K && (#[trigger] a1[i].children[l]).is_some() implies
            a1.dom().contains(a1[i].children[l].unwrap()) && a1[a1[i].children[l].unwrap()].parent == Some(i) by {
            assert(a0[i].children[l] == a1[i].children[l]);
            let c = a0[i].children[l].unwrap();
            assert(a0[c].parent == a1[c].parent);
        }
    }
    assert(parents_ok(a1)) by {
        assert forall|c: usize| a1.dom().contains(c) && (#[trigger] a1[c].parent).is_some() implies
            a1.dom().contains(a1[c].parent.unwrap())
            && exists|l: int| 0 <= l < K && #[trigger] a1[a1[c].parent.unwrap()].children[l] == Some(c) by {
            assert(a0[c].parent == a1[c].parent);
            let p = a0[c].parent.unwrap();
            let l = choose|l: int| 0 <= l < K && #[trigger] a0[p].children[l] == Some(c);
            assert(a1[p].children[l] == Some(c));
        }
    }
    assert(kids_unique(a1)) by {
        assert forall|i: usize, l1: int, l2: int| a1.dom().contains(i) && 0 <= l1 < K && 0 <= l2 < K && l1 != l2
            && (#[trigger] a1[i].children[l1]).is_some() implies a1[i].children[l1] != #[trigger] a1[i].children[l2] by {
            assert(a0[i].children[l1] == a1[i].children[l1]);
            assert(a0[i].children[l2] == a1[i].children[l2]);
        }
    }
    assert(leaf_ok(a1)) by {
        assert forall|i: usize| a1.dom().contains(i) implies (#[trigger] a1[i].isleaf <==> no_kids(a1[i])) by {
            assert(a0[i].isleaf == a1[i].isleaf);
            assert(a0[i].children == a1[i].children);
            assert(no_kids(a0[i]) <==> no_kids(a1[i]));
        }
    }
    assert(root_ok(a1, root)) by {
        assert forall|i: usize| a1.dom().contains(i) && (#[trigger] a1[i].parent).is_none() implies root == Some(i) by {
            assert(a0[i].parent == a1[i].parent);
        }
        if root.is_some() { assert(a0[root.unwrap()].parent == a1[root.unwrap()].parent); }
    }
}

// a1 is a0 with a fresh leaf c hung below `parent` at slot `label`
pub open spec fn child_added<N, const K: usize>(a0: Arena<N, K>, a1: Arena<N, K>, parent: usize, label: usize, c: usize) -> bool {
    &&& a0.dom().contains(parent) && label < K && a0[parent].children[label as int].is_none()
    &&& !a0.dom().contains(c) && a1.dom() =~= a0.dom().insert(c)
    &&& a1[c].parent == Some(parent) && a1[c].isleaf && no_kids(a1[c])
    &&& a1[parent].children@ == a0[parent].children@.update(label as int, Some(c))
    &&& a1[parent].parent == a0[parent].parent && !a1[parent].isleaf
    &&& forall|i: usize| a0.dom().contains(i) && i != parent ==> a1[i] == a0[i]
}

pub proof fn lemma_add_child_wf<N, const K: usize>(a0: Arena<N, K>, a1: Arena<N, K>, root: Option<usize>, parent: usize, label: usize, c: usize)
    requires wf_at(a0, root), child_added(a0, a1, parent, label, c)
    ensures wf_at(a1, root)
{
    let d = choose|d: Map<usize, nat>| ranked(a0, d);
    let d1 = d.insert(c, d[parent] + 1);
    assert(c != parent);
    assert(forall|l: int| 0 <= l < K && l != label ==> a1[parent].children[l] == a0[parent].children[l]) by {
        assert forall|l: int| 0 <= l < K && l != label implies a1[parent].children[l] == a0[parent].children[l] by {
            assert(a1[parent].children@[l] == a0[parent].children@[l]);
        }
    }
    assert(a1[parent].children[label as int] == Some(c)) by { assert(a1[parent].children@[label as int] == Some(c)); }
    // no old node lists c (c was not in the arena)
    assert forall|i: usize, l: int| a0.dom().contains(i) && 0 <= l < K implies (#[trigger] a0[i].children[l]) != Some(c) by {}
    assert(ranked(a1, d1)) by {
        assert forall|x: usize| a1.dom().contains(x) && (#[trigger] a1[x].parent).is_some() implies d1[a1[x].parent.unwrap()] < d1[x] by {
            if x == c {} else {
                assert(a1[x].parent == a0[x].parent);
                assert(a0.dom().contains(a0[x].parent.unwrap()));
            }
        }
    }
    let h = choose|h: Map<usize, nat>| ranked_down(a0, h);
    // every old height is shifted up by one, the fresh leaf gets height 0
    let h1 = Map::<usize, nat>::new(a1.dom(), |i: usize| if i == c { 0nat } else { (h[i] + 1) as nat });
    assert(ranked_down(a1, h1)) by {
        assert forall|i: usize, l: int| a1.dom().contains(i) && 0 <= l < K && (#[trigger] a1[i].children[l]).is_some() implies h1[a1[i].children[l].unwrap()] < h1[i] by {
            if i == c { assert(a1[c].children[l].is_none()); }
            else if i == parent && l == label {}
            else {
                assert(a1[i].children[l] == a0[i].children[l]);
                let x = a0[i].children[l].unwrap();
                assert(a0.dom().contains(x));
                assert(x != c);
            }
        }
    }
    assert(kids_ok(a1)) by {
        assert forall|i: usize, l: int| a1.dom().contains(i) && 0 <= l < K && (#[trigger] a1[i].children[l]).is_some() implies
            a1.dom().contains(a1[i].children[l].unwrap()) && a1[a1[i].children[l].unwrap()].parent == Some(i) by {
            if i == c { assert(a1[c].children[l].is_none()); }
            else if i == parent && l == label {}
            else {
                assert(a1[i].children[l] == a0[i].children[l]);
                let x = a0[i].children[l].unwrap();
                assert(x != c);
                assert(a1[x].parent == a0[x].parent);
            }
        }
    }
    assert(parents_ok(a1)) by {
        assert forall|x: usize| a1.dom().contains(x) && (#[trigger] a1[x].parent).is_some() implies
            a1.dom().contains(a1[x].parent.unwrap())
            && exists|l: int| 0 <= l < K && #[trigger] a1[a1[x].parent.unwrap()].children[l] == Some(x) by {
            if x == c { assert(a1[parent].children[label as int] == Some(c)); }
            else {
                assert(a1[x].parent == a0[x].parent);
                let p = a0[x].parent.unwrap();
                let l = choose|l: int| 0 <= l < K && #[trigger] a0[p].children[l] == Some(x);
                assert(l != label || p != parent);
                assert(a1[p].children[l] == Some(x));
            }
        }
    }
    assert(kids_unique(a1)) by {
        assert forall|i: usize, l1: int, l2: int| a1.dom().contains(i) && 0 <= l1 < K && 0 <= l2 < K && l1 != l2
            && (#[trigger] a1[i].children[l1]).is_some() implies a1[i].children[l1] != #[trigger] a1[i].children[l2] by {
            if i == c { assert(a1[c].children[l1].is_none()); }
            else if i == parent {
                if l1 == label { assert(a1[i].children[l2] == a0[i].children[l2]); }
                else if l2 == label { assert(a1[i].children[l1] == a0[i].children[l1]); }
                else { assert(a1[i].children[l1] == a0[i].children[l1]); assert(a1[i].children[l2] == a0[i].children[l2]); }
            } else {
                assert(a1[i].children[l1] == a0[i].children[l1]); assert(a1[i].children[l2] == a0[i].children[l2]);
            }
        }
    }
    assert(leaf_ok(a1)) by {
        assert forall|i: usize| a1.dom().contains(i) implies (#[trigger] a1[i].isleaf <==> no_kids(a1[i])) by {
            if i == c {} else if i == parent { assert(a1[i].children[label as int].is_some()); }
            else { assert(a1[i] == a0[i]); }
        }
    }
    assert(root_ok(a1, root)) by {
        assert forall|i: usize| a1.dom().contains(i) && (#[trigger] a1[i].parent).is_none() implies root == Some(i) by {
            if i != c { assert(a1[i].parent == a0[i].parent); }
        }
        if root.is_some() { assert(a1[root.unwrap()].parent == a0[root.unwrap()].parent); }
        if root.is_none() { assert(a0.dom().contains(parent)); }
    }
}

pub proof fn lemma_same_shape_wf_all<N, const K: usize>(a0: Arena<N, K>, root: Option<usize>)
    requires wf_at(a0, root)
    ensures forall|a1: Arena<N, K>| #[trigger] same_shape(a0, a1) ==> wf_at(a1, root)
{
    assert forall|a1: Arena<N, K>| #[trigger] same_shape(a0, a1) implies wf_at(a1, root) by { lemma_same_shape_wf(a0, a1, root); }
}

// complete effect of add_child_node: error => unchanged; success => child_added
pub open spec fn add_child_post<N, const K: usize>(a0: Arena<N, K>, a1: Arena<N, K>, parent: usize, label: usize, r: Result<usize, NodeError>) -> bool {
    &&& r is Err ==> a1 == a0
    &&& r is Ok ==> child_added(a0, a1, parent, label, r->Ok_0)
}

pub proof fn lemma_add_child_wf_all<N, const K: usize>(a0: Arena<N, K>, root: Option<usize>, parent: usize, label: usize)
    requires wf_at(a0, root)
    ensures forall|a1: Arena<N, K>, r: Result<usize, NodeError>| #[trigger] add_child_post(a0, a1, parent, label, r) ==> wf_at(a1, root)
{
    assert forall|a1: Arena<N, K>, r: Result<usize, NodeError>| #[trigger] add_child_post(a0, a1, parent, label, r) implies wf_at(a1, root) by {
        if r is Ok { lemma_add_child_wf(a0, a1, root, parent, label, r->Ok_0); }
    }
}

// ---------------------------------------------------------------- descendants
pub proof fn lemma_desc_step<N, const K: usize>(a: Arena<N, K>, n: usize, x: usize, f: nat)
    requires a.dom().contains(x), a[x].parent.is_some(), is_desc(a, n, a[x].parent.unwrap(), f)
    ensures is_desc(a, n, x, f + 1), desc(a, n, x)
{ assert(is_desc(a, n, x, f + 1)); }

pub proof fn lemma_desc_child<N, const K: usize>(a: Arena<N, K>, n: usize, x: usize)
    requires a.dom().contains(x), a[x].parent == Some(n)
    ensures is_desc(a, n, x, 1), desc(a, n, x)
{ assert(is_desc(a, n, x, 1)); }

pub proof fn lemma_desc_rank<N, const K: usize>(a: Arena<N, K>, d: Map<usize, nat>, n: usize, x: usize, f: nat)
    requires ranked(a, d), is_desc(a, n, x, f)
    ensures d[n] < d[x]
    decreases f
{
    let p = a[x].parent.unwrap();
    if p != n { lemma_desc_rank(a, d, n, p, (f - 1) as nat); }
}

// a node with a parent that is a descendant (or n itself) is a descendant
pub proof fn lemma_desc_via_parent<N, const K: usize>(a: Arena<N, K>, n: usize, x: usize)
    requires a.dom().contains(x), a[x].parent.is_some(), a[x].parent.unwrap() == n || desc(a, n, a[x].parent.unwrap())
    ensures desc(a, n, x)
{
    let p = a[x].parent.unwrap();
    if p == n { lemma_desc_child(a, n, x); }
    else {
        let f = choose|f: nat| is_desc(a, n, p, f);
        lemma_desc_step(a, n, x, f);
    }
}

// a1 is a0 with all proper descendants of n removed and n turned into a leaf
pub open spec fn descendants_removed<N, const K: usize>(a0: Arena<N, K>, a1: Arena<N, K>, n: usize) -> bool {
    &&& a0.dom().contains(n) && a1.dom().contains(n)
    &&& forall|i: usize| #![trigger a1.dom().contains(i)] a1.dom().contains(i) <==> a0.dom().contains(i) && !desc(a0, n, i)
    &&& a1[n].parent == a0[n].parent && a1[n].value == a0[n].value && a1[n].isleaf && no_kids(a1[n])
    &&& forall|i: usize| #![trigger a1[i]] a1.dom().contains(i) && i != n ==> a1[i] == a0[i]
}

pub proof fn lemma_descendants_removed_wf<N, const K: usize>(a0: Arena<N, K>, a1: Arena<N, K>, root: Option<usize>, n: usize)
    requires wf_at(a0, root), descendants_removed(a0, a1, n)
    ensures wf_at(a1, root)
{
    let d = choose|d: Map<usize, nat>| ranked(a0, d);
    assert forall|x: usize| a1.dom().contains(x) implies a1[x].parent == a0[x].parent by {}
    assert(ranked(a1, d));
    let h = choose|h: Map<usize, nat>| ranked_down(a0, h);
    assert(ranked_down(a1, h)) by {
        assert forall|i: usize, l: int| a1.dom().contains(i) && 0 <= l < K && (#[trigger] a1[i].children[l]).is_some() implies h[a1[i].children[l].unwrap()] < h[i] by {
            if i == n { assert(a1[n].children[l].is_none()); } else { assert(a1[i] == a0[i]); }
        }
    }
    assert(kids_ok(a1)) by {
        assert forall|i: usize, l: int| a1.dom().contains(i) && 0 <= l < K && (#[trigger] a1[i].children[l]).is_some() implies
            a1.dom().contains(a1[i].children[l].unwrap()) && a1[a1[i].children[l].unwrap()].parent == Some(i) by {
            if i == n { assert(a1[n].children[l].is_none()); }
            else {
                assert(a1[i] == a0[i]);
                let x = a0[i].children[l].unwrap();
                assert(a0.dom().contains(x) && a0[x].parent == Some(i));
                if desc(a0, n, x) {
                    let f = choose|f: nat| is_desc(a0, n, x, f);
                    assert(is_desc(a0, n, i, (f - 1) as nat));
                    assert(desc(a0, n, i));
                }
                assert(a1.dom().contains(x));
            }
        }
    }
    assert(parents_ok(a1)) by {
        assert forall|x: usize| a1.dom().contains(x) && (#[trigger] a1[x].parent).is_some() implies
            a1.dom().contains(a1[x].parent.unwrap())
            && exists|l: int| 0 <= l < K && #[trigger] a1[a1[x].parent.unwrap()].children[l] == Some(x) by {
            let q = a0[x].parent.unwrap();
            assert(a0.dom().contains(q));
            if q == n || desc(a0, n, q) { lemma_desc_via_parent(a0, n, x); }
            assert(a1.dom().contains(q) && q != n);
            let l = choose|l: int| 0 <= l < K && #[trigger] a0[q].children[l] == Some(x);
            assert(a1[q].children[l] == Some(x));
        }
    }
    assert(kids_unique(a1)) by {
        assert forall|i: usize, l1: int, l2: int| a1.dom().contains(i) && 0 <= l1 < K && 0 <= l2 < K && l1 != l2
            && (#[trigger] a1[i].children[l1]).is_some() implies a1[i].children[l1] != #[trigger] a1[i].children[l2] by {
            if i == n { assert(a1[n].children[l1].is_none()); } else { assert(a1[i] == a0[i]); }
        }
    }
    assert(leaf_ok(a1)) by {
        assert forall|i: usize| a1.dom().contains(i) implies (#[trigger] a1[i].isleaf <==> no_kids(a1[i])) by {
            if i != n { assert(a1[i] == a0[i]); }
        }
    }
    assert(root_ok(a1, root)) by {
        if root.is_some() {
            let r = root.unwrap();
            if desc(a0, n, r) { let f = choose|f: nat| is_desc(a0, n, r, f); }
            assert(a1.dom().contains(r));
        } else { assert(a0.dom().contains(n)); }
    }
}

pub open spec fn remove_desc_post<N, const K: usize>(a0: Arena<N, K>, a1: Arena<N, K>, n: usize, r: Result<i32, InvalidTreeIndexError>) -> bool {
    &&& r is Err ==> a1 == a0
    &&& r is Ok ==> descendants_removed(a0, a1, n)
}
pub proof fn lemma_remove_desc_wf_all<N, const K: usize>(a0: Arena<N, K>, root: Option<usize>, n: usize)
    requires wf_at(a0, root)
    ensures forall|a1: Arena<N, K>, r: Result<i32, InvalidTreeIndexError>| #[trigger] remove_desc_post(a0, a1, n, r) ==> wf_at(a1, root)
{
    assert forall|a1: Arena<N, K>, r: Result<i32, InvalidTreeIndexError>| #[trigger] remove_desc_post(a0, a1, n, r) implies wf_at(a1, root) by {
        if r is Ok { lemma_descendants_removed_wf(a0, a1, root, n); }
    }
}

// ---------------------------------------------------------------- remove child
// a1 is a0 with the child c at (parent,label) and all of c's descendants removed
pub open spec fn child_removed<N, const K: usize>(a0: Arena<N, K>, a1: Arena<N, K>, parent: usize, label: usize) -> bool {
    let c = a0[parent].children[label as int].unwrap();
    &&& a0.dom().contains(parent) && label < K && a0[parent].children[label as int].is_some()
    &&& forall|i: usize| #![trigger a1.dom().contains(i)] a1.dom().contains(i) <==> a0.dom().contains(i) && i != c && !desc(a0, c, i)
    &&& a1[parent].children@ == a0[parent].children@.update(label as int, None)
    &&& a1[parent].parent == a0[parent].parent && a1[parent].value == a0[parent].value
    &&& a1[parent].isleaf == no_kids(a1[parent])
    &&& forall|i: usize| #![trigger a1[i]] a1.dom().contains(i) && i != parent ==> a1[i] == a0[i]
}

pub proof fn lemma_child_removed_wf<N, const K: usize>(a0: Arena<N, K>, a1: Arena<N, K>, root: Option<usize>, parent: usize, label: usize)
    requires wf_at(a0, root), child_removed(a0, a1, parent, label)
    ensures wf_at(a1, root)
{
    let d = choose|d: Map<usize, nat>| ranked(a0, d);
    let c = a0[parent].children[label as int].unwrap();
    assert(a0.dom().contains(c) && a0[c].parent == Some(parent));
    assert(d[parent] < d[c]);
    if desc(a0, c, parent) { let f = choose|f: nat| is_desc(a0, c, parent, f); lemma_desc_rank(a0, d, c, parent, f); }
    assert(a1.dom().contains(parent));
    assert forall|l: int| 0 <= l < K && l != label implies a1[parent].children[l] == a0[parent].children[l] by {
        assert(a1[parent].children@[l] == a0[parent].children@[l]);
    }
    assert(a1[parent].children[label as int].is_none()) by { assert(a1[parent].children@[label as int] == None::<usize>); }
    assert forall|x: usize| a1.dom().contains(x) implies a1[x].parent == a0[x].parent by {}
    assert(ranked(a1, d));
    let h = choose|h: Map<usize, nat>| ranked_down(a0, h);
    assert(ranked_down(a1, h)) by {
        assert forall|i: usize, l: int| a1.dom().contains(i) && 0 <= l < K && (#[trigger] a1[i].children[l]).is_some() implies h[a1[i].children[l].unwrap()] < h[i] by {
            if i == parent { assert(l != label); assert(a1[i].children[l] == a0[i].children[l]); } else { assert(a1[i] == a0[i]); }
        }
    }
    assert(kids_ok(a1)) by {
        assert forall|i: usize, l: int| a1.dom().contains(i) && 0 <= l < K && (#[trigger] a1[i].children[l]).is_some() implies
            a1.dom().contains(a1[i].children[l].unwrap()) && a1[a1[i].children[l].unwrap()].parent == Some(i) by {
            if i == parent { assert(l != label); assert(a1[i].children[l] == a0[i].children[l]); }
            else { assert(a1[i] == a0[i]); }
            let x = a0[i].children[l].unwrap();
            assert(a0.dom().contains(x) && a0[x].parent == Some(i));
            if x == c { assert(i == parent); assert(a0[parent].children[l] != a0[parent].children[label as int]); }
            if desc(a0, c, x) {
                let f = choose|f: nat| is_desc(a0, c, x, f);
                if i != c { assert(is_desc(a0, c, i, (f - 1) as nat)); assert(desc(a0, c, i)); }
            }
            assert(a1.dom().contains(x));
        }
    }
    assert(parents_ok(a1)) by {
        assert forall|x: usize| a1.dom().contains(x) && (#[trigger] a1[x].parent).is_some() implies
            a1.dom().contains(a1[x].parent.unwrap())
            && exists|l: int| 0 <= l < K && #[trigger] a1[a1[x].parent.unwrap()].children[l] == Some(x) by {
            let q = a0[x].parent.unwrap();
            assert(a0.dom().contains(q));
            if q == c || desc(a0, c, q) { lemma_desc_via_parent(a0, c, x); }
            assert(a1.dom().contains(q));
            let l = choose|l: int| 0 <= l < K && #[trigger] a0[q].children[l] == Some(x);
            if q == parent { assert(l != label); }
            assert(a1[q].children[l] == Some(x));
        }
    }
    assert(kids_unique(a1)) by {
        assert forall|i: usize, l1: int, l2: int| a1.dom().contains(i) && 0 <= l1 < K && 0 <= l2 < K && l1 != l2
            && (#[trigger] a1[i].children[l1]).is_some() implies a1[i].children[l1] != #[trigger] a1[i].children[l2] by {
            if i == parent {
                assert(l1 != label); assert(a1[i].children[l1] == a0[i].children[l1]);
                if l2 != label { assert(a1[i].children[l2] == a0[i].children[l2]); }
            } else { assert(a1[i] == a0[i]); }
        }
    }
    assert(leaf_ok(a1)) by {
        assert forall|i: usize| a1.dom().contains(i) implies (#[trigger] a1[i].isleaf <==> no_kids(a1[i])) by {
            if i != parent { assert(a1[i] == a0[i]); }
        }
    }
    assert(root_ok(a1, root)) by {
        if root.is_some() {
            let r = root.unwrap();
            if desc(a0, c, r) { let f = choose|f: nat| is_desc(a0, c, r, f); }
            assert(a1.dom().contains(r));
        } else { assert(a0.dom().contains(parent)); }
    }
}

pub open spec fn remove_child_post<N, const K: usize>(a0: Arena<N, K>, a1: Arena<N, K>, parent: usize, label: usize, is_err: bool) -> bool {
    &&& is_err ==> a1 == a0
    &&& !is_err ==> child_removed(a0, a1, parent, label)
}
pub proof fn lemma_remove_child_wf_all<N, const K: usize>(a0: Arena<N, K>, root: Option<usize>, parent: usize, label: usize)
    requires wf_at(a0, root)
    ensures forall|a1: Arena<N, K>, e: bool| #[trigger] remove_child_post(a0, a1, parent, label, e) ==> wf_at(a1, root)
{
    assert forall|a1: Arena<N, K>, e: bool| #[trigger] remove_child_post(a0, a1, parent, label, e) implies wf_at(a1, root) by {
        if !e { lemma_child_removed_wf(a0, a1, root, parent, label); }
    }
}

// ---------------------------------------------------------------- merge
pub proof fn lemma_single_kid<N, const K: usize>(nd: TreeNode<N, K>, lo: int, l1: int, l2: int)
    requires 0 <= lo <= l1 < K, lo <= l2 < K, l1 != l2, nd.children[l1].is_some(), nd.children[l2].is_some()
    ensures count_some_from(nd.children, lo) >= 2
    decreases K - lo
{
    if lo < l1 && lo < l2 { lemma_single_kid(nd, lo + 1, l1, l2); }
    else if lo == l1 { lemma_count_pos(nd, lo + 1, l2); }
    else { lemma_count_pos(nd, lo + 1, l1); }
}
pub proof fn lemma_count_pos<N, const K: usize>(nd: TreeNode<N, K>, lo: int, l: int)
    requires 0 <= lo <= l < K, nd.children[l].is_some()
    ensures count_some_from(nd.children, lo) >= 1
    decreases K - lo
{
    if lo < l { lemma_count_pos(nd, lo + 1, l); }
}

// a1 is a0 with node p spliced out: its only child c (at `label`) takes p's slot `gl` under the grandparent g
pub open spec fn merged<N, const K: usize>(a0: Arena<N, K>, a1: Arena<N, K>, p: usize, label: usize, gl: int) -> bool {
    let c = a0[p].children[label as int].unwrap();
    let g = a0[p].parent.unwrap();
    &&& a0.dom().contains(p) && label < K && a0[p].children[label as int].is_some() && a0[p].parent.is_some()
    &&& count_some_from(a0[p].children, 0) == 1
    &&& 0 <= gl < K && a0[g].children[gl] == Some(p)
    &&& a1.dom() =~= a0.dom().remove(p)
    &&& a1[g].children@ == a0[g].children@.update(gl, Some(c))
    &&& a1[g].parent == a0[g].parent && a1[g].value == a0[g].value && a1[g].isleaf == a0[g].isleaf
    &&& a1[c].parent == Some(g) && a1[c].children == a0[c].children && a1[c].value == a0[c].value && a1[c].isleaf == a0[c].isleaf
    &&& forall|i: usize| #![trigger a1[i]] a1.dom().contains(i) && i != g && i != c ==> a1[i] == a0[i]
}

pub proof fn lemma_merged_wf<N, const K: usize>(a0: Arena<N, K>, a1: Arena<N, K>, root: Option<usize>, p: usize, label: usize, gl: int)
    requires wf_at(a0, root), merged(a0, a1, p, label, gl)
    ensures wf_at(a1, root)
{
    let d = choose|d: Map<usize, nat>| ranked(a0, d);
    let c = a0[p].children[label as int].unwrap();
    let g = a0[p].parent.unwrap();
    assert(a0.dom().contains(c) && a0[c].parent == Some(p));
    assert(a0.dom().contains(g));
    assert(d[g] < d[p] && d[p] < d[c]);
    assert(g != p && c != p && g != c);
    assert forall|l: int| 0 <= l < K && l != gl implies a1[g].children[l] == a0[g].children[l] by {
        assert(a1[g].children@[l] == a0[g].children@[l]);
    }
    assert(a1[g].children[gl] == Some(c)) by { assert(a1[g].children@[gl] == Some(c)); }
    // c is the only child of p
    assert forall|l: int| 0 <= l < K && l != label implies (#[trigger] a0[p].children[l]).is_none() by {
        if a0[p].children[l].is_some() {
            if l < label { lemma_single_kid(a0[p], 0, l, label as int); } else { lemma_single_kid(a0[p], 0, label as int, l); }
        }
    }
    assert forall|x: usize| a1.dom().contains(x) && x != c implies a1[x].parent == a0[x].parent by {}
    assert forall|x: usize| a1.dom().contains(x) && x != g implies a1[x].children == a0[x].children by {}
    assert(ranked(a1, d)) by {
        assert forall|x: usize| a1.dom().contains(x) && (#[trigger] a1[x].parent).is_some() implies d[a1[x].parent.unwrap()] < d[x] by {
            if x == c {} else { assert(a1[x].parent == a0[x].parent); }
        }
    }
    let h = choose|h: Map<usize, nat>| ranked_down(a0, h);
    assert(h[c] < h[p] && h[p] < h[g]) by { assert(a0[p].children[label as int].is_some()); assert(a0[g].children[gl].is_some()); }
    assert(ranked_down(a1, h)) by {
        assert forall|i: usize, l: int| a1.dom().contains(i) && 0 <= l < K && (#[trigger] a1[i].children[l]).is_some() implies h[a1[i].children[l].unwrap()] < h[i] by {
            if i == g && l == gl {} else { assert(a1[i].children[l] == a0[i].children[l]); }
        }
    }
    assert(kids_ok(a1)) by {
        assert forall|i: usize, l: int| a1.dom().contains(i) && 0 <= l < K && (#[trigger] a1[i].children[l]).is_some() implies
            a1.dom().contains(a1[i].children[l].unwrap()) && a1[a1[i].children[l].unwrap()].parent == Some(i) by {
            if i == g && l == gl {}
            else {
                assert(a1[i].children[l] == a0[i].children[l]);
                let x = a0[i].children[l].unwrap();
                assert(a0.dom().contains(x) && a0[x].parent == Some(i));
                if x == p { assert(i == g); assert(a0[g].children[l] != a0[g].children[gl]); }
                assert(x != c);
                assert(a1[x].parent == a0[x].parent);
            }
        }
    }
    assert(parents_ok(a1)) by {
        assert forall|x: usize| a1.dom().contains(x) && (#[trigger] a1[x].parent).is_some() implies
            a1.dom().contains(a1[x].parent.unwrap())
            && exists|l: int| 0 <= l < K && #[trigger] a1[a1[x].parent.unwrap()].children[l] == Some(x) by {
            if x == c { assert(a1[g].children[gl] == Some(c)); }
            else {
                assert(a1[x].parent == a0[x].parent);
                let q = a0[x].parent.unwrap();
                let l = choose|l: int| 0 <= l < K && #[trigger] a0[q].children[l] == Some(x);
                if q == p { assert(l == label); }
                assert(q != p);
                if q == g { assert(l != gl); }
                assert(a1[q].children[l] == Some(x));
            }
        }
    }
    assert(kids_unique(a1)) by {
        assert forall|i: usize, l1: int, l2: int| a1.dom().contains(i) && 0 <= l1 < K && 0 <= l2 < K && l1 != l2
            && (#[trigger] a1[i].children[l1]).is_some() implies a1[i].children[l1] != #[trigger] a1[i].children[l2] by {
            if i == g {
                if l1 == gl { assert(a1[g].children[l2] == a0[g].children[l2]); if a0[g].children[l2] == Some(c) { assert(a0[c].parent == Some(g)); } }
                else if l2 == gl { assert(a1[g].children[l1] == a0[g].children[l1]); if a0[g].children[l1] == Some(c) { assert(a0[c].parent == Some(g)); } }
                else { assert(a1[g].children[l1] == a0[g].children[l1]); assert(a1[g].children[l2] == a0[g].children[l2]); }
            } else { assert(a1[i].children == a0[i].children); }
        }
    }
    assert(leaf_ok(a1)) by {
        assert forall|i: usize| a1.dom().contains(i) implies (#[trigger] a1[i].isleaf <==> no_kids(a1[i])) by {
            if i == g { assert(a0[g].children[gl].is_some()); assert(a1[g].children[gl].is_some()); }
            else { assert(a1[i].children == a0[i].children); assert(a1[i].isleaf == a0[i].isleaf); assert(no_kids(a1[i]) <==> no_kids(a0[i])); }
        }
    }
    assert(root_ok(a1, root)) by {
        assert forall|i: usize| a1.dom().contains(i) && (#[trigger] a1[i].parent).is_none() implies root == Some(i) by {
            assert(i != c); assert(a1[i].parent == a0[i].parent);
        }
        if root.is_some() { let r = root.unwrap(); assert(r != p && r != c); assert(a1[r].parent == a0[r].parent); }
        else { assert(a0.dom().contains(p)); }
    }
}

pub open spec fn merge_post<N, const K: usize>(a0: Arena<N, K>, a1: Arena<N, K>, p: usize, label: usize, is_err: bool) -> bool {
    &&& is_err ==> a1 == a0
    &&& !is_err ==> exists|gl: int| merged(a0, a1, p, label, gl)
}
pub proof fn lemma_merge_wf_all<N, const K: usize>(a0: Arena<N, K>, root: Option<usize>, p: usize, label: usize)
    requires wf_at(a0, root)
    ensures forall|a1: Arena<N, K>, e: bool| #[trigger] merge_post(a0, a1, p, label, e) ==> wf_at(a1, root)
{
    assert forall|a1: Arena<N, K>, e: bool| #[trigger] merge_post(a0, a1, p, label, e) implies wf_at(a1, root) by {
        if !e { let gl = choose|gl: int| merged(a0, a1, p, label, gl); lemma_merged_wf(a0, a1, root, p, label, gl); }
    }
}

// ---------------------------------------------------------------- loop invariant of remove_all_descendants
// a: current arena, S: work stack, n: subtree root
pub open spec fn rd_inv<N, const K: usize>(a0: Arena<N, K>, a: Arena<N, K>, s: Seq<usize>, n: usize) -> bool {
    // nothing is mutated, only removed; n stays
    &&& forall|i: usize| #![trigger a.dom().contains(i)] a.dom().contains(i) ==> a0.dom().contains(i) && a[i] == a0[i]
    &&& a.dom().contains(n)
    // stack entries are live and pairwise different
    &&& forall|j: int| 0 <= j < s.len() ==> a.dom().contains(#[trigger] s[j])
    &&& forall|j1: int, j2: int| 0 <= j1 < j2 < s.len() ==> s[j1] != s[j2]
    // whatever is removed or queued is a descendant of n whose parent is n or already removed
    &&& forall|x: usize| #![trigger a0[x].parent] a0.dom().contains(x) && (!a.dom().contains(x) || s.contains(x)) ==>
            a0[x].parent.is_some() && desc(a0, n, x)
            && (a0[x].parent.unwrap() == n || !a.dom().contains(a0[x].parent.unwrap()))
    // children of n and of removed nodes are removed or queued
    &&& forall|x: usize| #![trigger a0[x].parent] a0.dom().contains(x) && a0[x].parent.is_some()
            && (a0[x].parent.unwrap() == n || !a.dom().contains(a0[x].parent.unwrap()))
            ==> !a.dom().contains(x) || s.contains(x)
}

// the same while node q (just popped, logically removed: am = a.remove(q)) has its children slots < i pushed
pub open spec fn rd_inv_i<N, const K: usize>(a0: Arena<N, K>, am: Arena<N, K>, s: Seq<usize>, n: usize, q: usize, i: int) -> bool {
    &&& forall|x: usize| #![trigger am.dom().contains(x)] am.dom().contains(x) ==> a0.dom().contains(x) && am[x] == a0[x]
    &&& am.dom().contains(n) && a0.dom().contains(q) && !am.dom().contains(q) && q != n
    &&& forall|j: int| 0 <= j < s.len() ==> am.dom().contains(#[trigger] s[j])
    &&& forall|j1: int, j2: int| 0 <= j1 < j2 < s.len() ==> s[j1] != s[j2]
    &&& forall|x: usize| #![trigger a0[x].parent] a0.dom().contains(x) && (!am.dom().contains(x) || s.contains(x)) ==>
            a0[x].parent.is_some() && desc(a0, n, x)
            && (a0[x].parent.unwrap() == n || !am.dom().contains(a0[x].parent.unwrap()))
    &&& forall|x: usize| #![trigger a0[x].parent] a0.dom().contains(x) && a0[x].parent.is_some()
            && (a0[x].parent.unwrap() == n || !am.dom().contains(a0[x].parent.unwrap()))
            && !(a0[x].parent.unwrap() == q && exists|l: int| i <= l < K && #[trigger] a0[q].children[l] == Some(x))
            ==> !am.dom().contains(x) || s.contains(x)
    // of q's children only those in slots < i have been queued
    &&& forall|x: usize| #![trigger a0[x].parent] a0.dom().contains(x) && a0[x].parent == Some(q) && (!am.dom().contains(x) || s.contains(x))
            ==> exists|l: int| 0 <= l < i && #[trigger] a0[q].children[l] == Some(x)
}

pub proof fn lemma_rd_init<N, const K: usize>(a0: Arena<N, K>, root: Option<usize>, n: usize)
    requires wf_at(a0, root), a0.dom().contains(n)
    ensures rd_inv(a0, a0, kid_idx(a0[n].children, 0), n)
{
    let s = kid_idx(a0[n].children, 0);
    lemma_kid_idx_members(a0[n].children, 0);
    lemma_kid_idx_distinct(a0[n].children, 0);
    assert forall|j: int| 0 <= j < s.len() implies a0.dom().contains(#[trigger] s[j]) by {
        let l = choose|l: int| 0 <= l < K && #[trigger] a0[n].children[l] == Some(s[j]);
    }
    assert forall|x: usize| a0.dom().contains(x) && s.contains(x) implies
            (#[trigger] a0[x].parent).is_some() && desc(a0, n, x) && a0[x].parent.unwrap() == n by {
        let j = choose|j: int| 0 <= j < s.len() && s[j] == x;
        let l = choose|l: int| 0 <= l < K && #[trigger] a0[n].children[l] == Some(s[j]);
        lemma_desc_child(a0, n, x);
    }
    assert forall|x: usize| a0.dom().contains(x) && (#[trigger] a0[x].parent).is_some() && a0[x].parent.unwrap() == n implies s.contains(x) by {
        let l = choose|l: int| 0 <= l < K && #[trigger] a0[n].children[l] == Some(x);
        assert(a0[n].children[l].is_some());
    }
}

// popping q: (a, s ++ [q]) --> rd_inv_i(a.remove(q), s, q, 0)
// form used at the loop head of `while let Some(q) = stack.pop()`: the pre-pop stack is existentially quantified
pub proof fn lemma_rd_pop_ex<N, const K: usize>(a0: Arena<N, K>, root: Option<usize>, a: Arena<N, K>, s: Seq<usize>, q: usize, n: usize)
    requires wf_at(a0, root), exists|s0: Seq<usize>| #[trigger] rd_inv(a0, a, s0, n) && s0.len() > 0 && s0.last() == q && s0.drop_last() == s
    ensures rd_inv_i(a0, a.remove(q), s, n, q, 0), a.dom().contains(q), a0.dom().contains(q), desc(a0, n, q), a[q] == a0[q]
{
    let s0 = choose|s0: Seq<usize>| #[trigger] rd_inv(a0, a, s0, n) && s0.len() > 0 && s0.last() == q && s0.drop_last() == s;
    lemma_rd_pop(a0, root, a, s0, n);
    assert(s0.contains(q)) by { assert(s0[s0.len() - 1] == q); }
    assert(a.dom().contains(q)) by { assert(s0[s0.len() - 1] == q); }
    assert(a0.dom().contains(q));
    assert(a0[q].parent.is_some() && desc(a0, n, q));
}

pub proof fn lemma_rd_pop<N, const K: usize>(a0: Arena<N, K>, root: Option<usize>, a: Arena<N, K>, s0: Seq<usize>, n: usize)
    requires wf_at(a0, root), rd_inv(a0, a, s0, n), s0.len() > 0
    ensures rd_inv_i(a0, a.remove(s0.last()), s0.drop_last(), n, s0.last(), 0)
{
    let q = s0.last();
    let s = s0.drop_last();
    let am = a.remove(q);
    let d = choose|d: Map<usize, nat>| ranked(a0, d);
    assert(s0.contains(q)) by { assert(s0[s0.len() - 1] == q); }
    assert(a.dom().contains(q));
    assert(a0.dom().contains(q));
    assert(a0[q].parent.is_some() && desc(a0, n, q));
    let f = choose|f: nat| is_desc(a0, n, q, f);
    lemma_desc_rank(a0, d, n, q, f);
    assert(q != n);
    assert forall|j: int| 0 <= j < s.len() implies am.dom().contains(#[trigger] s[j]) by { assert(s[j] == s0[j]); assert(s0[j] != s0[s0.len() - 1]); }
    assert forall|j1: int, j2: int| 0 <= j1 < j2 < s.len() implies s[j1] != s[j2] by { assert(s[j1] == s0[j1] && s[j2] == s0[j2]); }
    assert forall|x: usize| s.contains(x) implies s0.contains(x) by {
        let j = choose|j: int| 0 <= j < s.len() && s[j] == x; assert(s0[j] == x);
    }
    assert forall|x: usize| s0.contains(x) && x != q implies s.contains(x) by {
        let j = choose|j: int| 0 <= j < s0.len() && s0[j] == x; assert(j < s.len()); assert(s[j] == x);
    }
    assert forall|x: usize| a0.dom().contains(x) && (!am.dom().contains(x) || s.contains(x)) implies
            (#[trigger] a0[x].parent).is_some() && desc(a0, n, x)
            && (a0[x].parent.unwrap() == n || !am.dom().contains(a0[x].parent.unwrap())) by {
        assert(!a.dom().contains(x) || s0.contains(x));
    }
    assert forall|x: usize| a0.dom().contains(x) && a0[x].parent == Some(q) && (!am.dom().contains(x) || s.contains(x))
            implies exists|l: int| 0 <= l < 0 && #[trigger] a0[q].children[l] == Some(x) by {
        // x removed or queued would need its parent q removed (or == n): impossible
        assert(d[q] < d[x]);
        assert(x != q);
        assert(!a.dom().contains(x) || s0.contains(x));
        assert(a0[x].parent.unwrap() == n || !a.dom().contains(a0[x].parent.unwrap()));
    }
    assert forall|x: usize| a0.dom().contains(x) && (#[trigger] a0[x].parent).is_some()
            && (a0[x].parent.unwrap() == n || !am.dom().contains(a0[x].parent.unwrap()))
            && !(a0[x].parent.unwrap() == q && exists|l: int| 0 <= l < K && #[trigger] a0[q].children[l] == Some(x))
            implies !am.dom().contains(x) || s.contains(x) by {
        let p = a0[x].parent.unwrap();
        if p == q {
            let l = choose|l: int| 0 <= l < K && #[trigger] a0[p].children[l] == Some(x);
            assert(a0[q].children[l] == Some(x));
        } else {
            assert(p == n || !a.dom().contains(p));
            assert(!a.dom().contains(x) || s0.contains(x));
        }
    }
}

// pushing the child in slot i of q (if any)
pub proof fn lemma_rd_push<N, const K: usize>(a0: Arena<N, K>, root: Option<usize>, am: Arena<N, K>, s: Seq<usize>, n: usize, q: usize, i: int)
    requires wf_at(a0, root), rd_inv_i(a0, am, s, n, q, i), 0 <= i < K, desc(a0, n, q)
    ensures
        a0[q].children[i].is_none() ==> rd_inv_i(a0, am, s, n, q, i + 1),
        a0[q].children[i].is_some() ==> rd_inv_i(a0, am, s.push(a0[q].children[i].unwrap()), n, q, i + 1),
{
    let d = choose|d: Map<usize, nat>| ranked(a0, d);
    if a0[q].children[i].is_none() {
        assert forall|x: usize| a0.dom().contains(x) && (#[trigger] a0[x].parent).is_some()
                && (a0[x].parent.unwrap() == n || !am.dom().contains(a0[x].parent.unwrap()))
                && !(a0[x].parent.unwrap() == q && exists|l: int| i + 1 <= l < K && #[trigger] a0[q].children[l] == Some(x))
                implies !am.dom().contains(x) || s.contains(x) by {
            if a0[x].parent.unwrap() == q && exists|l: int| i <= l < K && #[trigger] a0[q].children[l] == Some(x) {
                let l = choose|l: int| i <= l < K && #[trigger] a0[q].children[l] == Some(x);
                assert(l != i);
            }
        }
        assert forall|x: usize| a0.dom().contains(x) && a0[x].parent == Some(q) && (!am.dom().contains(x) || s.contains(x))
                implies exists|l: int| 0 <= l < i + 1 && #[trigger] a0[q].children[l] == Some(x) by {
            let l = choose|l: int| 0 <= l < i && #[trigger] a0[q].children[l] == Some(x);
            assert(a0[q].children[l] == Some(x));
        }
    } else {
        let c = a0[q].children[i].unwrap();
        let s1 = s.push(c);
        assert(a0.dom().contains(c) && a0[c].parent == Some(q));
        assert(d[q] < d[c]);
        lemma_desc_via_parent(a0, n, c);
        // c is neither removed nor queued yet
        if !am.dom().contains(c) || s.contains(c) {
            let l = choose|l: int| 0 <= l < i && #[trigger] a0[q].children[l] == Some(c);
            assert(a0[q].children[l] != a0[q].children[i]);
        }
        assert(am.dom().contains(c) && !s.contains(c));
        assert forall|j: int| 0 <= j < s1.len() implies am.dom().contains(#[trigger] s1[j]) by { if j < s.len() { assert(s1[j] == s[j]); } }
        assert forall|j1: int, j2: int| 0 <= j1 < j2 < s1.len() implies s1[j1] != s1[j2] by {
            assert(s1[j1] == s[j1]);
            if j2 < s.len() { assert(s1[j2] == s[j2]); } else { assert(s.contains(s[j1])); }
        }
        assert forall|x: usize| s1.contains(x) implies s.contains(x) || x == c by {
            let j = choose|j: int| 0 <= j < s1.len() && s1[j] == x; if j < s.len() { assert(s[j] == x); }
        }
        assert forall|x: usize| s.contains(x) || x == c implies s1.contains(x) by {
            if x == c { assert(s1[s.len() as int] == c); } else { let j = choose|j: int| 0 <= j < s.len() && s[j] == x; assert(s1[j] == x); }
        }
        assert forall|x: usize| a0.dom().contains(x) && (!am.dom().contains(x) || s1.contains(x)) implies
                (#[trigger] a0[x].parent).is_some() && desc(a0, n, x)
                && (a0[x].parent.unwrap() == n || !am.dom().contains(a0[x].parent.unwrap())) by {
            if x != c { assert(!am.dom().contains(x) || s.contains(x)); }
        }
        assert forall|x: usize| a0.dom().contains(x) && (#[trigger] a0[x].parent).is_some()
                && (a0[x].parent.unwrap() == n || !am.dom().contains(a0[x].parent.unwrap()))
                && !(a0[x].parent.unwrap() == q && exists|l: int| i + 1 <= l < K && #[trigger] a0[q].children[l] == Some(x))
                implies !am.dom().contains(x) || s1.contains(x) by {
            if a0[x].parent.unwrap() == q && exists|l: int| i <= l < K && #[trigger] a0[q].children[l] == Some(x) {
                let l = choose|l: int| i <= l < K && #[trigger] a0[q].children[l] == Some(x);
                assert(l == i);
            } else { assert(!am.dom().contains(x) || s.contains(x)); }
        }
        assert forall|x: usize| a0.dom().contains(x) && a0[x].parent == Some(q) && (!am.dom().contains(x) || s1.contains(x))
                implies exists|l: int| 0 <= l < i + 1 && #[trigger] a0[q].children[l] == Some(x) by {
            if x == c { assert(a0[q].children[i] == Some(x)); }
            else { let l = choose|l: int| 0 <= l < i && #[trigger] a0[q].children[l] == Some(x); assert(a0[q].children[l] == Some(x)); }
        }
    }
}

// all slots done: back to the outer invariant on the shrunken arena
pub proof fn lemma_rd_done<N, const K: usize>(a0: Arena<N, K>, am: Arena<N, K>, s: Seq<usize>, n: usize, q: usize)
    requires rd_inv_i(a0, am, s, n, q, K as int)
    ensures rd_inv(a0, am, s, n)
{}

// at exit (stack empty) exactly the descendants are gone
pub proof fn lemma_rd_closed<N, const K: usize>(a0: Arena<N, K>, a: Arena<N, K>, n: usize, x: usize, f: nat)
    requires rd_inv(a0, a, Seq::<usize>::empty(), n), is_desc(a0, n, x, f), a0.dom().contains(x)
    ensures !a.dom().contains(x)
    decreases f
{
    let p = a0[x].parent.unwrap();
    if p != n {
        if a.dom().contains(p) { lemma_rd_closed(a0, a, n, p, (f - 1) as nat); }
    }
    assert(!Seq::<usize>::empty().contains(x));
}

pub proof fn lemma_rd_exit<N, const K: usize>(a0: Arena<N, K>, a: Arena<N, K>, n: usize)
    requires rd_inv(a0, a, Seq::<usize>::empty(), n)
    ensures forall|i: usize| #![trigger a.dom().contains(i)] a.dom().contains(i) <==> a0.dom().contains(i) && !desc(a0, n, i)
{
    assert forall|i: usize| #![trigger a.dom().contains(i)] a.dom().contains(i) <==> a0.dom().contains(i) && !desc(a0, n, i) by {
        if a0.dom().contains(i) && desc(a0, n, i) {
            let f = choose|f: nat| is_desc(a0, n, i, f);
            lemma_rd_closed(a0, a, n, i, f);
        }
        if a0.dom().contains(i) && !a.dom().contains(i) { assert(a0[i].parent.is_some() && desc(a0, n, i)); }
    }
}

// state of try_remove_child after remove_all_descendants(c): what is needed to finish the removal
pub proof fn lemma_try_remove_mid<N, const K: usize>(a0: Arena<N, K>, am: Arena<N, K>, root: Option<usize>, parent: usize, label: usize)
    requires wf_at(a0, root), a0.dom().contains(parent), label < K, a0[parent].children[label as int].is_some(),
        descendants_removed(a0, am, a0[parent].children[label as int].unwrap())
    ensures
        am.dom().contains(parent), am[parent] == a0[parent], parent != a0[parent].children[label as int].unwrap(),
        am.dom().contains(a0[parent].children[label as int].unwrap()),
{
    let d = choose|d: Map<usize, nat>| ranked(a0, d);
    let c = a0[parent].children[label as int].unwrap();
    assert(a0.dom().contains(c) && a0[c].parent == Some(parent));
    assert(d[parent] < d[c]);
    if desc(a0, c, parent) { let f = choose|f: nat| is_desc(a0, c, parent, f); lemma_desc_rank(a0, d, c, parent, f); }
}

// ---- end tree_lemmas ----

// a leaf has no descendants
pub proof fn lemma_desc_has_kid<N, const K: usize>(a: Arena<N, K>, n: usize, i: usize)
    requires parents_ok(a), a.dom().contains(n), no_kids(a[n]), desc(a, n, i)
    ensures false
{
    let f = choose|f: nat| is_desc(a, n, i, f);
    lemma_is_desc_has_kid(a, n, i, f);
}
pub proof fn lemma_is_desc_has_kid<N, const K: usize>(a: Arena<N, K>, n: usize, i: usize, f: nat)
    requires parents_ok(a), a.dom().contains(n), no_kids(a[n]), is_desc(a, n, i, f)
    ensures false
    decreases f
{
    let pp = a[i].parent.unwrap();
    if pp == n {
        let l = choose|l: int| 0 <= l < K && #[trigger] a[n].children[l] == Some(i);
        assert(a[n].children[l].is_none());
    } else {
        lemma_is_desc_has_kid(a, n, pp, (f - 1) as nat);
    }
}

