// ---- prelude/chain_spec.rs : binary "chain" trees (a conjunction of one-row predicates tested one after the other) ----
// c[0], c[1], ... are decisions with one row; label 1 (row holds) leads to the next decision, after the last one to the terminal t1;
// label 0 (row violated) leads to a terminal of its own when has_else, and is missing otherwise
pub open spec fn chain_ok(a: AArena<2>, c: Seq<usize>, t1: usize, has_else: bool) -> bool {
    &&& c.len() >= 1
    &&& a.dom().contains(t1) && a[t1].isleaf
    &&& forall|j: int| 0 <= j < c.len() ==> {
            let nd = #[trigger] a[c[j]];
            &&& a.dom().contains(c[j]) && !nd.isleaf && nd.value.aff.mat.nrows() == 1
            &&& nd.children[1] == Some(if j + 1 < c.len() { c[j + 1] } else { t1 })
            &&& (has_else ==> nd.children[0].is_some() && a.dom().contains(nd.children[0].unwrap()) && a[nd.children[0].unwrap()].isleaf)
            &&& (!has_else ==> nd.children[0].is_none())
        }
}
// value of the chain from position j on
pub open spec fn chain_val(a: AArena<2>, c: Seq<usize>, t1: usize, has_else: bool, j: int, x: V) -> Option<V>
    decreases c.len() - j
{
    if j >= c.len() || j < 0 { Some(a[t1].value.aff.ap(x)) }
    else if a[c[j]].value.aff.row_sat(0, x) { chain_val(a, c, t1, has_else, j + 1, x) }
    else if has_else { Some(a[a[c[j]].children[0].unwrap()].value.aff.ap(x)) }
    else { None }
}
pub proof fn lemma_chain_fn(a: AArena<2>, h: Map<usize, nat>, c: Seq<usize>, t1: usize, has_else: bool, j: int, x: V)
    requires chain_ok(a, c, t1, has_else), ranked_down(a, h), 0 <= j < c.len()
    ensures tree_fn(a, h, c[j], x) == chain_val(a, c, t1, has_else, j, x)
    decreases c.len() - j
{
    let nd = a[c[j]];
    assert((1usize << 0usize) == 1usize) by(bit_vector);
    assert(label_val(&nd.value.aff, x, 0) == 0);
    assert(decide(&nd.value.aff, x) == (if nd.value.aff.row_sat(0, x) { 1int } else { 0int }));
    if nd.value.aff.row_sat(0, x) {
        let nxt = nd.children[1].unwrap();
        assert(h[nxt] < h[c[j]]);
        if j + 1 < c.len() {
            lemma_chain_fn(a, h, c, t1, has_else, j + 1, x);
        } else {
            assert(tree_fn(a, h, t1, x) == Some(a[t1].value.aff.ap(x)));
        }
    } else if has_else {
        let e = nd.children[0].unwrap();
        assert(h[e] < h[c[j]]);
        assert(tree_fn(a, h, e, x) == Some(a[e].value.aff.ap(x)));
    }
}
// ---- end chain_spec ----
