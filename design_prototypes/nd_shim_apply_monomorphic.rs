use vstd::prelude::*;
use std::marker::PhantomData;
verus! {

// ---------- math prelude
pub type V = Seq<real>;
pub type M = Seq<Seq<real>>;

pub open spec fn dotp(a: V, b: V, n: int) -> real decreases n {
    if n <= 0 { 0real } else { dotp(a, b, n - 1) + a[n - 1] * b[n - 1] }
}
pub open spec fn m_ok(a: M, r: int, c: int) -> bool {
    a.len() == r && forall|i: int| 0 <= i < r ==> (#[trigger] a[i]).len() == c
}
pub open spec fn mv(a: M, x: V) -> V {
    Seq::new(a.len(), |i: int| dotp(a[i], x, x.len() as int))
}
pub open spec fn col(b: M, j: int) -> V { Seq::new(b.len(), |k: int| b[k][j]) }
pub open spec fn mm(a: M, b: M, c: int) -> M {
    Seq::new(a.len(), |i: int| Seq::new(c as nat, |j: int| dotp(a[i], col(b, j), b.len() as int)))
}
pub open spec fn vadd(a: V, b: V) -> V { Seq::new(a.len(), |i: int| a[i] + b[i]) }

// ---------- ndarray shim (monomorphic f64)
#[verifier::external_body]
pub struct Array1 { _p: PhantomData<f64> }
#[verifier::external_body]
pub struct Array2 { _p: PhantomData<f64> }

impl View for Array1 { type V = V; uninterp spec fn view(&self) -> V; }
impl Array2 {
    pub uninterp spec fn m(&self) -> M;
    pub uninterp spec fn nrows(&self) -> int;
    pub uninterp spec fn ncols(&self) -> int;
    pub open spec fn ok(&self) -> bool { m_ok(self.m(), self.nrows(), self.ncols()) && self.nrows() >= 0 && self.ncols() >= 0 }
}

pub trait Dot<Rhs> {
    type Output;
    spec fn dot_req(&self, rhs: &Rhs) -> bool;
    spec fn dot_ens(&self, rhs: &Rhs, out: &Self::Output) -> bool;
    fn dot(&self, rhs: &Rhs) -> (out: Self::Output)
        requires self.dot_req(rhs)
        ensures self.dot_ens(rhs, &out);
}

impl Dot<Array2> for Array2 {
    type Output = Array2;
    open spec fn dot_req(&self, rhs: &Array2) -> bool { self.ok() && rhs.ok() && self.ncols() == rhs.nrows() }
    open spec fn dot_ens(&self, rhs: &Array2, out: &Array2) -> bool {
        out.ok() && out.nrows() == self.nrows() && out.ncols() == rhs.ncols() && out.m() == mm(self.m(), rhs.m(), rhs.ncols())
    }
    #[verifier::external_body]
    fn dot(&self, rhs: &Array2) -> (out: Array2) { unimplemented!() }
}

impl Dot<Array1> for Array2 {
    type Output = Array1;
    open spec fn dot_req(&self, rhs: &Array1) -> bool { self.ok() && self.ncols() == rhs@.len() }
    open spec fn dot_ens(&self, rhs: &Array1, out: &Array1) -> bool {
        out@ == mv(self.m(), rhs@)
    }
    #[verifier::external_body]
    fn dot(&self, rhs: &Array1) -> (out: Array1) { unimplemented!() }
}

impl<'a> vstd::std_specs::ops::AddSpecImpl<&'a Array1> for Array1 {
    open spec fn obeys_add_spec() -> bool { true }
    open spec fn add_req(self, rhs: &'a Array1) -> bool { self@.len() == rhs@.len() }
    open spec fn add_spec(self, rhs: &'a Array1) -> Array1 { arr1_of(vadd(self@, rhs@)) }
}
pub uninterp spec fn arr1_of(v: V) -> Array1;
pub broadcast axiom fn arr1_of_view(v: V) ensures #[trigger] arr1_of(v)@ == v;

impl<'a> core::ops::Add<&'a Array1> for Array1 {
    type Output = Array1;
    #[verifier::external_body]
    fn add(self, rhs: &'a Array1) -> (out: Array1)
    { unimplemented!() }
}

impl vstd::std_specs::ops::AddSpecImpl<Array1> for Array1 {
    open spec fn obeys_add_spec() -> bool { true }
    open spec fn add_req(self, rhs: Array1) -> bool { self@.len() == rhs@.len() }
    open spec fn add_spec(self, rhs: Array1) -> Array1 { arr1_of(vadd(self@, rhs@)) }
}
impl core::ops::Add<Array1> for Array1 {
    type Output = Array1;
    #[verifier::external_body]
    fn add(self, rhs: Array1) -> (out: Array1)
    { unimplemented!() }
}
// ---------- extracted code
pub struct AffFunc
{
    pub mat: Array2,
    pub bias: Array1,
}

pub open spec fn aff_wf(f: &AffFunc) -> bool { f.mat.ok() && f.bias@.len() == f.mat.nrows() }
pub open spec fn aff_apply(f: &AffFunc, x: V) -> V { vadd(mv(f.mat.m(), x), f.bias@) }

impl AffFunc {
    pub fn apply(&self, input: &Array1) -> (r: Array1) 
        requires aff_wf(self), input@.len() == self.mat.ncols()
        ensures r@ == aff_apply(self, input@)
    {
        broadcast use arr1_of_view;
        self.mat.dot(input) + &self.bias
    }
}

} // verus!
fn main() {}
