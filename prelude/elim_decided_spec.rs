// ---- prelude/elim_decided_spec.rs : which nodes carry a verdict after infeasible_elimination (C06: a second run changes nothing) ----
// the LP layer always decides: no Error, and every Optimal point lies in its polytope (within the tolerance of `contains`)
pub open spec fn lp_decides() -> bool {
    forall|q: Polytope| #![trigger lp_status(q)] !(lp_status(q) is Error) && (lp_status(q) matches PolytopeStatus::Optimal(w) ==> contains_tol(q, w))
}
// children of a settled visited node that was not skipped (the root, or not cached infeasible) are visited or waiting; so is the root
#[verifier::opaque]
pub open spec fn kids_inv<const K: usize>(a: AArena<K>, root: usize, s: Seq<DfsNodeData>, vis: Set<usize>, ex: Option<usize>) -> bool {
    &&& tracked(s, vis, root)
    &&& forall|x: usize| #![trigger a[x].parent] a.dom().contains(x) && a[x].parent is Some && vis.contains(a[x].parent.unwrap()) && Some(a[x].parent.unwrap()) != ex
            && (a[x].parent.unwrap() == root || !(a[a[x].parent.unwrap()].value.state is Infeasible)) ==> tracked(s, vis, x)
}
// under lp_decides every settled visited node below the root carries a verdict
#[verifier::opaque]
pub open spec fn dec_inv<const K: usize>(a: AArena<K>, root: usize, vis: Set<usize>, ex: Option<usize>) -> bool {
    lp_decides() ==> forall|x: usize| #![trigger a[x].value] vis.contains(x) && a.dom().contains(x) && x != root && Some(x) != ex ==> !(a[x].value.state is Indeterminate)
}
pub proof fn lemma_kd_init<const K: usize>(a: AArena<K>, root: usize)
    ensures kids_inv(a, root, seq![DfsNodeData { depth: 0, index: root, n_remaining: 0 }], Set::<usize>::empty(), None), dec_inv(a, root, Set::<usize>::empty(), None)
{
    reveal(kids_inv); reveal(dec_inv);
    let s = seq![DfsNodeData { depth: 0, index: root, n_remaining: 0 }];
    assert(s[0].index == root);
}
pub proof fn lemma_kd_next<const K: usize>(a: AArena<K>, root: usize, s0: Seq<DfsNodeData>, s1: Seq<DfsNodeData>, lp: usize, it: DfsNodeData, vis: Set<usize>)
    requires kids_inv(a, root, s0, vis, None), dec_inv(a, root, vis, None), dfs_step(a, s0, s1, lp, Some(it))
    ensures kids_inv(a, root, s1, vis.insert(it.index), Some(it.index)), dec_inv(a, root, vis.insert(it.index), Some(it.index))
{
    reveal(kids_inv); reveal(dec_inv);
    let n = it.index;
    let v1 = vis.insert(n);
    let rest = s0.drop_last();
    assert(s0[s0.len() - 1] == it);
    assert forall|x: usize| tracked(s0, vis, x) implies tracked(s1, v1, x) by {
        if !vis.contains(x) {
            let k = choose|k: int| 0 <= k < s0.len() && (#[trigger] s0[k]).index == x;
            if k < rest.len() { assert(s1[k] == s0[k]); }
        }
    }
}
// every child of the popped node is among the pushed entries
pub proof fn lemma_kids_pushed<const K: usize>(a: AArena<K>, s0: Seq<DfsNodeData>, s1: Seq<DfsNodeData>, lp: usize, it: DfsNodeData, x: usize)
    requires dfs_step(a, s0, s1, lp, Some(it)), parents_ok(a), a.dom().contains(x), a[x].parent == Some(it.index), it.depth < usize::MAX
    ensures on_stack(s1, x)
{
    let n = it.index;
    let dp = (it.depth + 1) as usize;
    let l = choose|l: int| 0 <= l < K && #[trigger] a[a[x].parent.unwrap()].children[l] == Some(x);
    lemma_kid_items_has(a[n].children, 0, dp, l);
    let ki = kid_items(a[n].children, 0, dp);
    let j = choose|j: int| 0 <= j < ki.len() && (#[trigger] ki[j]).index == x;
    let rest = s0.drop_last();
    let kids = ki.reverse();
    assert(kids[ki.len() - 1 - j] == ki[j]);
    assert(s1[rest.len() + (ki.len() - 1 - j)] == kids[ki.len() - 1 - j]);
}
pub proof fn lemma_kid_items_has<const K: usize>(ch: [Option<usize>; K], lo: int, depth: usize, l: int)
    requires 0 <= lo <= l < K, ch[l] is Some
    ensures exists|j: int| 0 <= j < kid_items(ch, lo, depth).len() && (#[trigger] kid_items(ch, lo, depth)[j]).index == ch[l].unwrap()
    decreases K - lo
{
    let all = kid_items(ch, lo, depth);
    if lo == l {
        assert(all[0].index == ch[l].unwrap());
    } else {
        lemma_kid_items_has(ch, lo + 1, depth, l);
        let rest = kid_items(ch, lo + 1, depth);
        let j = choose|j: int| 0 <= j < rest.len() && (#[trigger] rest[j]).index == ch[l].unwrap();
        if ch[lo].is_some() { assert(all[j + 1] == rest[j]); } else { assert(all[j] == rest[j]); }
    }
}
// the node in progress is settled without having been skipped: its children are waiting
pub proof fn lemma_kd_settle_keep<const K: usize>(a: AArena<K>, root: usize, s0: Seq<DfsNodeData>, s1: Seq<DfsNodeData>, lp: usize, it: DfsNodeData, vis1: Set<usize>)
    requires kids_inv(a, root, s1, vis1, Some(it.index)), dec_inv(a, root, vis1, Some(it.index)), dfs_step(a, s0, s1, lp, Some(it)), parents_ok(a), it.depth < usize::MAX,
        it.index == root || !(a[it.index].value.state is Indeterminate) || !lp_decides(),
    ensures kids_inv(a, root, s1, vis1, None), dec_inv(a, root, vis1, None)
{
    reveal(kids_inv); reveal(dec_inv);
    assert forall|x: usize| #![trigger a[x].parent] a.dom().contains(x) && a[x].parent == Some(it.index) implies tracked(s1, vis1, x) by {
        lemma_kids_pushed(a, s0, s1, lp, it, x);
    }
}
// ... or after its children were dropped again (it is cached infeasible and not the root)
pub proof fn lemma_kd_skip<const K: usize>(a: AArena<K>, root: usize, s1: Seq<DfsNodeData>, s2: Seq<DfsNodeData>, vis1: Set<usize>, n: usize)
    requires kids_inv(a, root, s1, vis1, Some(n)), vis1.contains(n), a[root].parent is None,
        // what skip_subtree removed hangs below n
        forall|x: usize| on_stack(s1, x) && !on_stack(s2, x) ==> #[trigger] a[x].parent == Some(n),
        forall|x: usize| on_stack(s2, x) ==> on_stack(s1, x),
    ensures kids_inv(a, root, s2, vis1, Some(n))
{
    reveal(kids_inv);
    assert forall|x: usize| #![trigger a[x].parent] a.dom().contains(x) && a[x].parent is Some && vis1.contains(a[x].parent.unwrap()) && Some(a[x].parent.unwrap()) != Some(n)
            && (a[x].parent.unwrap() == root || !(a[a[x].parent.unwrap()].value.state is Infeasible)) implies tracked(s2, vis1, x) by {
        assert(tracked(s1, vis1, x));
        if !vis1.contains(x) && !on_stack(s2, x) { assert(a[x].parent == Some(n)); }
    }
    assert(tracked(s1, vis1, root));
    if !vis1.contains(root) && !on_stack(s2, root) { assert(a[root].parent == Some(n)); }
}
pub proof fn lemma_kd_settle_skipped<const K: usize>(a: AArena<K>, root: usize, s: Seq<DfsNodeData>, vis: Set<usize>, n: usize)
    requires kids_inv(a, root, s, vis, Some(n)), dec_inv(a, root, vis, Some(n)), n != root, a[n].value.state is Infeasible
    ensures kids_inv(a, root, s, vis, None), dec_inv(a, root, vis, None)
{
    reveal(kids_inv); reveal(dec_inv);
}
// writing the state of the node in progress
pub proof fn lemma_kd_write<const K: usize>(a0: AArena<K>, a1: AArena<K>, root: usize, s: Seq<DfsNodeData>, vis: Set<usize>, n: usize)
    requires kids_inv(a0, root, s, vis, Some(n)), dec_inv(a0, root, vis, Some(n)), value_written(a0, a1, n), parents_ok(a0)
    ensures kids_inv(a1, root, s, vis, Some(n)), dec_inv(a1, root, vis, Some(n))
{
    reveal(kids_inv); reveal(dec_inv);
    assert forall|i: usize| a0.dom().contains(i) implies a1[i].parent == a0[i].parent by { if i != n { assert(a1[i] == a0[i]); } }
    assert forall|x: usize| #![trigger a1[x].parent] a1.dom().contains(x) && a1[x].parent is Some && vis.contains(a1[x].parent.unwrap()) && Some(a1[x].parent.unwrap()) != Some(n)
            && (a1[x].parent.unwrap() == root || !(a1[a1[x].parent.unwrap()].value.state is Infeasible)) implies tracked(s, vis, x) by {
        let y = a0[x].parent.unwrap();
        assert(a1[x].parent == a0[x].parent);
        assert(a0.dom().contains(y));
        assert(a1[y] == a0[y]);
    }
    assert forall|x: usize| #![trigger a1[x].value] vis.contains(x) && a1.dom().contains(x) && x != root && Some(x) != Some(n) implies a1[x].value == a0[x].value by { assert(a1[x] == a0[x]); }
}
// a forward_if_redundant step on p (visited, settled, not skipped): the child that takes p's place is visited or waiting already
pub proof fn lemma_kd_forward<const K: usize>(a1: AArena<K>, a2: AArena<K>, root: usize, s: Seq<DfsNodeData>, vis: Set<usize>, p: usize)
    requires kids_inv(a1, root, s, vis, None), dec_inv(a1, root, vis, None), pruned_step(a1, a2, p, root), vis.contains(p), a1.dom().contains(p), parents_ok(a2), parents_ok(a1),
        p == root || !(a1[p].value.state is Infeasible), p != root ==> a1[p].parent is Some && vis.contains(a1[p].parent.unwrap()),
    ensures kids_inv(a2, root, s, vis, None), dec_inv(a2, root, vis, None)
{
    reveal(kids_inv); reveal(dec_inv);
    assert forall|x: usize| #![trigger a2[x].parent] a2.dom().contains(x) && a2[x].parent is Some && vis.contains(a2[x].parent.unwrap())
            && (a2[x].parent.unwrap() == root || !(a2[a2[x].parent.unwrap()].value.state is Infeasible)) implies tracked(s, vis, x) by {
        assert(a1.dom().contains(x));
        let y2 = a2[x].parent.unwrap();
        assert(a2.dom().contains(y2));
        assert(a2[y2].value == a1[y2].value);
        if a2[x].parent == a1[x].parent { assert(a1[x].parent.unwrap() == y2); }
        else { assert(a1[x].parent == Some(p)); assert(a1[x].parent.unwrap() == p); }
    }
    assert forall|x: usize| #![trigger a2[x].value] vis.contains(x) && a2.dom().contains(x) && x != root implies a2[x].value == a1[x].value by { }
}
// a deferred removal
pub proof fn lemma_kd_remove<const K: usize>(a1: AArena<K>, a2: AArena<K>, root: usize, vis: Set<usize>, node: usize, label: usize, e: bool)
    requires kids_inv(a1, root, Seq::<DfsNodeData>::empty(), vis, None), dec_inv(a1, root, vis, None), remove_child_post(a1, a2, node, label, e), parents_ok(a2)
    ensures kids_inv(a2, root, Seq::<DfsNodeData>::empty(), vis, None), dec_inv(a2, root, vis, None)
{
    reveal(kids_inv); reveal(dec_inv);
    if !e {
        let s = Seq::<DfsNodeData>::empty();
        assert forall|i: usize| a2.dom().contains(i) implies a1.dom().contains(i) && a2[i].parent == a1[i].parent && a2[i].value == a1[i].value by { if i != node { assert(a2[i] == a1[i]); } }
        assert forall|x: usize| #![trigger a2[x].parent] a2.dom().contains(x) && a2[x].parent is Some && vis.contains(a2[x].parent.unwrap())
                && (a2[x].parent.unwrap() == root || !(a2[a2[x].parent.unwrap()].value.state is Infeasible)) implies tracked(s, vis, x) by {
            let y = a2[x].parent.unwrap();
            assert(a2.dom().contains(y));
            assert(a1[x].parent.unwrap() == y);
        }
    }
}
// at the end of the run (nothing is waiting any more): every reachable node below the root carries a verdict
pub proof fn lemma_kd_visited<const K: usize>(a: AArena<K>, d: Map<usize, nat>, root: usize, vis: Set<usize>, i: usize)
    requires kids_inv(a, root, Seq::<DfsNodeData>::empty(), vis, None), wf_at(a, Some(root)), ranked(a, d), a.dom().contains(i), clean_above(a, root, i)
    ensures vis.contains(i)
    decreases d[i]
{
    reveal(kids_inv);
    let s = Seq::<DfsNodeData>::empty();
    if i == root {
        assert(tracked(s, vis, root));
    } else {
        assert(a[i].parent is Some);
        let y = a[i].parent.unwrap();
        assert(a.dom().contains(y));
        assert(d[y] < d[i]);
        lemma_desc_child(a, y, i);
        // the ancestors of y are ancestors of i
        assert(clean_above(a, root, y)) by {
            assert forall|z: usize| #![trigger desc(a, z, y)] z != root && desc(a, z, y) implies !(a[z].value.state is Infeasible) by {
                lemma_desc_via_parent(a, z, i);
            }
        }
        lemma_kd_visited(a, d, root, vis, y);
        assert(a[i].parent.unwrap() == y);
        assert(tracked(s, vis, i));
    }
}
pub proof fn lemma_kd_final(a: AArena<2>, root: usize, vis: Set<usize>)
    requires kids_inv(a, root, Seq::<DfsNodeData>::empty(), vis, None), dec_inv(a, root, vis, None), wf_at(a, Some(root)), lp_decides()
    ensures all_decided(a, root)
{
    let d = choose|d: Map<usize, nat>| ranked(a, d);
    assert forall|i: usize| #![trigger a[i].value] a.dom().contains(i) && i != root && clean_above(a, root, i) implies !(a[i].value.state is Indeterminate) by {
        lemma_kd_visited(a, d, root, vis, i);
        reveal(dec_inv);
    }
}
// skip_subtree right after next: the entries dropped are the children just pushed
pub proof fn lemma_kd_skip_step<const K: usize>(a: AArena<K>, root: usize, s0: Seq<DfsNodeData>, s1: Seq<DfsNodeData>, lp: usize, it: DfsNodeData, s2: Seq<DfsNodeData>, lp2: usize,
    vis0: Set<usize>, d0: Set<usize>)
    requires el_inv(a, root, s0, vis0, root, d0), dfs_step(a, s0, s1, lp, Some(it)), skip_step(s1, lp, s2, lp2), d0.len() <= i32::MAX,
        kids_inv(a, root, s1, vis0.insert(it.index), Some(it.index)),
    ensures kids_inv(a, root, s2, vis0.insert(it.index), Some(it.index))
{
    let n = it.index;
    let rest = s0.drop_last();
    let dp = (it.depth + 1) as usize;
    let ki = kid_items(a[n].children, 0, dp);
    let kids = ki.reverse();
    lemma_kid_items_len(a[n].children, 0, dp);
    assert(s0[s0.len() - 1] == it);
    assert(s1 == rest + kids);
    assert(s2 =~= rest);
    assert(it.depth < usize::MAX && wf_at(a, Some(root)) && el_entries(a, root, s0, vis0) && el_closed(a, root, vis0)) by {
        reveal(el_inv);
        vstd::set_lib::lemma_len_subset(vis0, d0);
    }
    lemma_el_next_kids(a, root, s0, it, vis0);
    assert forall|x: usize| on_stack(s1, x) && !on_stack(s2, x) implies #[trigger] a[x].parent == Some(n) by {
        let k = choose|k: int| 0 <= k < s1.len() && (#[trigger] s1[k]).index == x;
        if k < rest.len() { assert(s2[k] == s1[k]); assert(on_stack(s2, x)); }
        else { assert(s1[k] == kids[k - rest.len()]); }
    }
    assert forall|x: usize| on_stack(s2, x) implies on_stack(s1, x) by {
        let k = choose|k: int| 0 <= k < s2.len() && (#[trigger] s2[k]).index == x;
        assert(s1[k] == s2[k]);
    }
    lemma_kd_skip(a, root, s1, s2, vis0.insert(n), n);
}
pub proof fn lemma_el_parent_visited<const K: usize>(a: AArena<K>, root: usize, s: Seq<DfsNodeData>, vis: Set<usize>, ex: usize, d0: Set<usize>, p: usize)
    requires el_inv(a, root, s, vis, ex, d0), vis.contains(p), a.dom().contains(p)
    ensures p != root ==> a[p].parent is Some && vis.contains(a[p].parent.unwrap()), parents_ok(a), a[root].parent is None
{
    reveal(el_inv);
}
// ---- end elim_decided_spec ----
