// ---- prelude/lp_oracle_tol_spec.rs : the LP layer as an uninterpreted oracle; the tolerance membership test `Polytope::contains` AS PROVED in unit aff_algebra ----
// (prelude/lp_oracle_spec.rs, used by the units that only pass the test's answers through, leaves contains_tol abstract: what is proved there holds for this definition too)
//@item src/linalg/polyhedron.rs | enum PolytopeStatus | no-debug
// ---------------------------------------------------------------- oracle (ASSUMED: deterministic, otherwise arbitrary)
pub uninterp spec fn lp_status(p: Polytope) -> PolytopeStatus;
// what `Polytope::contains` computes (unit aff_algebra, for matching shapes): every un-normalised row holds up to 1e-8
#[verifier::opaque]
pub open spec fn contains_tol(p: Polytope, x: Array1<f64>) -> bool { tol_sat(p.mat.m(), p.bias.v(), x.v()) }
// ---- end lp_oracle_tol_spec ----
