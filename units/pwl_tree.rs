// unit pwl_tree — C09 (evaluation vs structure) and the tree-level part of C02 that is within reach (apply_func)
use vstd::prelude::*;
use std::marker::PhantomData;
use std::mem;
use std::ops::{Add, Sub, Mul, Div, Neg};
verus! {
global size_of usize == 8;

//@include prelude/inc_pwl_core.rs
//@include prelude/tol_spec.rs
//@include prelude/wit_core_spec.rs
//@include prelude/wit_grow_spec.rs

// 2^i facts for the label computation (64-bit usize)
pub proof fn lemma_shl_facts(i: usize)
    requires i < 16
    ensures (1usize << i) >= 1, (1usize << i) <= 0x8000usize, i < 15 ==> (1usize << i) + (1usize << i) == (1usize << ((i + 1) as usize))
{
    assert((1usize << i) >= 1 && (1usize << i) <= 0x8000usize) by(bit_vector) requires i < 16;
    if i < 15 {
        let j = (i + 1) as usize;
        assert((1usize << i) + (1usize << i) == (1usize << j)) by(bit_vector) requires i < 15, j == i + 1;
    }
}
pub open spec fn bits_val(bv: Seq<bool>, n: int) -> int
    decreases n
{
    if n <= 0 { 0 } else { bits_val(bv, n - 1) + (if bv[n - 1] { (1usize << ((n - 1) as usize)) as int } else { 0 }) }
}
pub proof fn lemma_bits_val_bound(bv: Seq<bool>, n: int)
    requires 0 <= n <= 15
    ensures 0 <= bits_val(bv, n) < (1usize << (n as usize))
    decreases n
{
    if n == 0 { assert((1usize << 0usize) == 1usize) by(bit_vector); }
    else { lemma_bits_val_bound(bv, n - 1); lemma_shl_facts((n - 1) as usize); }
}
pub proof fn lemma_label_is_bits(aff: &AffFunc, x: V, bv: Seq<bool>, n: int)
    requires 0 <= n <= aff.mat.nrows(), forall|i: int| 0 <= i < n ==> bv[i] == aff.row_sat(i, x)
    ensures label_val(aff, x, n) == bits_val(bv, n)
    decreases n
{
    if n > 0 { lemma_label_is_bits(aff, x, bv, n - 1); }
}

impl<const K: usize> AffTree<K> {
//@fn src/pwl/afftree.rs | impl<const K: usize> AffTree<K> | index_from_label
//@bodysub result.len_of(Axis(0)) => result.len_of_b(Axis(0))
//@bodysub match result[i] { => match result.at_b(i) {
//@spec
    requires result.bv().len() <= 15, bits_val(result.bv(), result.bv().len() as int) < K
    ensures r == bits_val(result.bv(), result.bv().len() as int), r < K
//@loop 1
            invariant
                idx == bits_val(result.bv(), i as int), result.bv().len() <= 15,
//@hint loop 1 start
            proof { lemma_bits_val_bound(result.bv(), i as int); lemma_shl_facts(i); }
//@end

//@fn src/pwl/afftree.rs | impl<const K: usize> AffTree<K> | evaluate_decision
//@bodysub (node.value.aff.mat.dot(input) - &node.value.aff.bias).map(|x| *x <= 0.) => nd_le_zero(&(node.value.aff.mat.dot(input) - &node.value.aff.bias))
//@spec
    requires node.value.aff.ok(), input.v().len() == node.value.aff.mat.ncols(),
        node.value.aff.mat.nrows() <= 15, (1usize << (node.value.aff.mat.nrows() as usize)) <= K,
    ensures r == decide(&node.value.aff, input.v()), r < K
//@hint start
        broadcast use axiom_array2_shape;
//@hint end
        proof {
            let aff = &node.value.aff;
            let n = aff.mat.nrows();
            assert forall|i: int| 0 <= i < n implies node_eval.bv()[i] == aff.row_sat(i, input.v()) by {
                assert(mv(aff.mat.m(), input.v())[i] == dotp(aff.mat.m()[i], input.v(), input.v().len() as int));
            }
            lemma_label_is_bits(aff, input.v(), node_eval.bv(), n);
            lemma_bits_val_bound(node_eval.bv(), n);
        }
//@end
}

impl<const K: usize> AffTree<K> {
//@fn src/pwl/afftree.rs | impl<const K: usize> AffTree<K> | find_terminal
//@spec
    requires
        kids_ok(self.a()), aff_shape_ok(self.a(), self.in_dim), input.v().len() == self.in_dim,
        // `root` is a node of this tree and the tree is acyclic with a height that fits into usize
        exists|r0: usize, h: Map<usize, nat>| self.a().dom().contains(r0) && *root == self.a()[r0] && ranked_down(self.a(), h) && h[r0] < usize::MAX - 1,
    ensures
        // Some: the labels are a path from `root` to the returned terminal and every label is the one its decision selects for the input
        r matches Some((node, ls)) ==> node.isleaf && follows(self.a(), *root, input.v(), ls@) == Some(*node)
            && exists|i: usize| self.a().dom().contains(i) && *node == #[trigger] self.a()[i],
        // None: following the decisions leads to a decision whose selected branch is missing
        r is None ==> exists|ls: Seq<usize>| (#[trigger] follows(self.a(), *root, input.v(), ls)).is_some()
            && !follows(self.a(), *root, input.v(), ls).unwrap().isleaf
            && 0 <= decide(&follows(self.a(), *root, input.v(), ls).unwrap().value.aff, input.v()) < K
            && follows(self.a(), *root, input.v(), ls).unwrap().children[decide(&follows(self.a(), *root, input.v(), ls).unwrap().value.aff, input.v())].is_none(),
//@hint loop 1 before
        let ghost wit = choose|w: (usize, Map<usize, nat>)| self.a().dom().contains(w.0) && *root == self.a()[w.0] && ranked_down(self.a(), w.1) && w.1[w.0] < usize::MAX - 1;
        let ghost h = wit.1;
        let ghost mut cur: usize = wit.0;
        proof {
            let (r0, h0) = choose|r0: usize, h: Map<usize, nat>| self.a().dom().contains(r0) && *root == self.a()[r0] && ranked_down(self.a(), h) && h[r0] < usize::MAX - 1;
            assert(self.a().dom().contains((r0, h0).0) && *root == self.a()[(r0, h0).0] && ranked_down(self.a(), (r0, h0).1) && (r0, h0).1[(r0, h0).0] < usize::MAX - 1);
        }
//@loop 1
            invariant
                kids_ok(self.a()), aff_shape_ok(self.a(), self.in_dim), input.v().len() == self.in_dim, ranked_down(self.a(), h),
                self.a().dom().contains(cur), *current_node == self.a()[cur],
                follows(self.a(), *root, input.v(), label_seq@) == Some(*current_node),
                iter + h[cur] < usize::MAX - 1,
            decreases usize::MAX - iter
//@hint before label_seq.push(label);
            let ghost ls0 = label_seq@;
//@hint after label_seq.push(label);
            proof {
                lemma_follows_push(self.a(), *root, input.v(), ls0, label);
                assert(label_seq@ =~= ls0.push(label));
                assert(seq![label].drop_first() =~= Seq::<usize>::empty());
            }
//@hint loop 1 end
            proof {
                let prev = self.a()[cur];
                cur = successor_idx;
                assert(seq![label][0] == label);
                assert(follows(self.a(), self.a()[successor_idx], input.v(), Seq::<usize>::empty()) == Some(self.a()[successor_idx]));
                assert(follows(self.a(), prev, input.v(), seq![label]) == Some(self.a()[successor_idx]));
            }
//@end
}

impl<const K: usize> AffTree<K> {

//@fn src/pwl/afftree.rs | impl<const K: usize> AffTree<K> | apply_func_at_node
//@spec
    requires old(self).a().dom().contains(node), aff.ok(), old(self).a()[node].value.aff.ok(), aff.mat.ncols() == old(self).a()[node].value.aff.mat.nrows()
    ensures
        // composes `aff` on the left of the node's function, keeps the cached state and every other node
        composed_at(old(self).a(), final(self).a(), node, aff),
        final(self).tree.root == old(self).tree.root, final(self).in_dim == old(self).in_dim,
//@end

//@fn src/pwl/afftree.rs | impl<const K: usize> AffTree<K> | apply_func
//@spec
    requires old(self).tree.wf(), aff_func.ok(), aff_shape_ok(old(self).a(), old(self).in_dim),
        forall|i: usize| old(self).a().dom().contains(i) && #[trigger] old(self).a()[i].isleaf ==> old(self).a()[i].value.aff.mat.nrows() == aff_func.mat.ncols(),
    ensures
        all_leaves_composed(old(self).a(), final(self).a(), aff_func),
        final(self).tree.root == old(self).tree.root, final(self).in_dim == old(self).in_dim,
        all_leaves_composed(old(self).a(), final(self).a(), aff_func) ==> final(self).tree.wf(),
        // C05: cached states are kept and only terminal functions change, so witnesses that satisfied their path conditions up to 1e-8 still do
        wit_inv(old(self).a(), old(self).a()) ==> wit_inv(final(self).a(), final(self).a()),
        // semantically: first this tree, then aff_func
        all_leaves_composed(old(self).a(), final(self).a(), aff_func) ==>
            forall|h: Map<usize, nat>, idx: usize, x: V| #![trigger tree_fn(final(self).a(), h, idx, x)]
                ranked_down(old(self).a(), h) && old(self).a().dom().contains(idx) && x.len() == old(self).in_dim ==>
                tree_fn(final(self).a(), h, idx, x) == (match tree_fn(old(self).a(), h, idx, x) { Some(y) => Some(aff_func.ap(y)), None => None }),
//@hint start
        proof {
            lemma_same_shape_wf_all(old(self).a(), old(self).tree.root);
            assert forall|a1: AArena<K>, h: Map<usize, nat>, idx: usize, x: V| #![trigger all_leaves_composed(old(self).a(), a1, aff_func), tree_fn(a1, h, idx, x)]
                all_leaves_composed(old(self).a(), a1, aff_func) && ranked_down(old(self).a(), h) && old(self).a().dom().contains(idx) && x.len() == old(self).in_dim implies
                tree_fn(a1, h, idx, x) == (match tree_fn(old(self).a(), h, idx, x) { Some(y) => Some(aff_func.ap(y)), None => None }) by {
                lemma_apply_func_tree_fn(old(self).a(), a1, h, aff_func, idx, x, old(self).in_dim);
            }
        }
//@loop 1
            invariant
                same_shape(old(self).a(), self.a()), self.tree.root == old(self).tree.root, self.in_dim == old(self).in_dim,
                aff_func.ok(),
                forall|i: usize| r_ok_leaf(old(self).a(), i) ==> old(self).a()[i].value.aff.mat.nrows() == aff_func.mat.ncols(),
                aff_shape_ok(old(self).a(), old(self).in_dim),
                forall|i: usize| __v@.contains(i) <==> old(self).a().dom().contains(i) && old(self).a()[i].isleaf,
                forall|j1: int, j2: int| 0 <= j1 < j2 < __v@.len() ==> __v@[j1] < __v@[j2],
                0 <= __i <= __v@.len(),
                // untouched so far: decisions and the leaves still to come
                forall|i: usize| #![trigger self.a()[i]] old(self).a().dom().contains(i) && (!old(self).a()[i].isleaf || (exists|j: int| __i <= j < __v@.len() && __v@[j] == i)) ==> self.a()[i] == old(self).a()[i],
                // done: the leaves before position __i
                forall|j: int| #![trigger __v@[j]] 0 <= j < __i ==> leaf_done(old(self).a(), self.a(), __v@[j], aff_func),
            decreases __v@.len() - __i
//@hint loop 1 start
            let ghost a_pre = self.a();
            proof {
                let i0 = __v@[__i as int];
                assert(__v@.contains(i0));
                assert(self.a()[i0] == old(self).a()[i0]);
                assert(r_ok_leaf(old(self).a(), i0));
            }
//@hint loop 1 end
            proof {
                let k = __i - 1;
                let i0 = __v@[k];
                assert(composed_at(a_pre, self.a(), i0, aff_func));
                assert forall|i: usize| old(self).a().dom().contains(i) && (!old(self).a()[i].isleaf || (exists|j: int| __i <= j < __v@.len() && __v@[j] == i))
                    implies #[trigger] self.a()[i] == old(self).a()[i] by {
                    if old(self).a()[i].isleaf {
                        let j = choose|j: int| __i <= j < __v@.len() && __v@[j] == i;
                        assert(__v@[k] < __v@[j]);
                    } else {
                        assert(__v@.contains(i0));
                    }
                    assert(i != i0);
                    assert(a_pre[i] == old(self).a()[i]);
                }
                assert forall|j: int| 0 <= j < __i implies leaf_done(old(self).a(), self.a(), #[trigger] __v@[j], aff_func) by {
                    if j < k { assert(__v@[j] < __v@[k]); assert(leaf_done(old(self).a(), a_pre, __v@[j], aff_func)); assert(__v@.contains(__v@[j])); assert(old(self).a().dom().contains(__v@[j])); assert(a_pre.dom().contains(__v@[j])); assert(self.a()[__v@[j]] == a_pre[__v@[j]]); }
                    else { assert(a_pre[i0] == old(self).a()[i0]); }
                }
                assert(same_shape(old(self).a(), self.a()));
            }
//@hint loop 1 after
        proof {
            assert forall|i: usize| old(self).a().dom().contains(i) && old(self).a()[i].isleaf implies leaf_done(old(self).a(), self.a(), i, aff_func) by {
                assert(__v@.contains(i));
                let j = choose|j: int| 0 <= j < __v@.len() && __v@[j] == i;
                assert(leaf_done(old(self).a(), self.a(), __v@[j], aff_func));
            }
            if wit_inv(old(self).a(), old(self).a()) {
                assert(all_leaves_composed(old(self).a(), self.a(), aff_func));
                lemma_wit_leaves(old(self).a(), self.a(), aff_func, old(self).tree.root);
            }
        }
//@end
}

impl<const K: usize> AffTree<K> {
//@fn src/pwl/afftree.rs | impl<const K: usize> AffTree<K> | evaluate
//@bodysub self.find_terminal(self.tree.get_root(), input)            .map(|(func, _)| func.value.aff.apply(input)) => match self.find_terminal(self.tree.get_root(), input) { Some((func, _)) => Some(func.value.aff.apply(input)), None => None }
//@spec
    requires self.tree.wf(), self.tree.root is Some, aff_shape_ok(self.a(), self.in_dim), input.v().len() == self.in_dim,
        exists|h: Map<usize, nat>| ranked_down(self.a(), h) && h[self.tree.root.unwrap()] < usize::MAX - 1,
    ensures
        // evaluate(x) is the value of the denoted partial function, undefinedness included
        forall|h: Map<usize, nat>| ranked_down(self.a(), h) ==>
            (match #[trigger] tree_fn(self.a(), h, self.tree.root.unwrap(), input.v()) { Some(y) => r is Some && r.unwrap().v() == y, None => r is None }),
//@hint start
        broadcast use axiom_array2_shape;
        proof {
            let a = self.a(); let r0 = self.tree.root.unwrap(); let x = input.v();
            let h0 = choose|h: Map<usize, nat>| ranked_down(self.a(), h) && h[self.tree.root.unwrap()] < usize::MAX - 1;
            assert(self.a().dom().contains(r0) && ranked_down(self.a(), h0) && h0[r0] < usize::MAX - 1);
            assert forall|h: Map<usize, nat>, ls: Seq<usize>| ranked_down(a, h) && (#[trigger] follows(a, a[r0], x, ls)).is_some() implies
                (follows(a, a[r0], x, ls).unwrap().isleaf ==> #[trigger] tree_fn(a, h, r0, x) == Some(follows(a, a[r0], x, ls).unwrap().value.aff.ap(x)))
                && (!follows(a, a[r0], x, ls).unwrap().isleaf && 0 <= decide(&follows(a, a[r0], x, ls).unwrap().value.aff, x) < K
                    && follows(a, a[r0], x, ls).unwrap().children[decide(&follows(a, a[r0], x, ls).unwrap().value.aff, x)].is_none() ==> tree_fn(a, h, r0, x).is_none()) by {
                lemma_follows_tree_fn(a, h, r0, x, ls);
            }
        }
//@end
}

} // verus!
fn main() {}
