fn main() {
    use affinitree::tree::graph::Tree;
    let mut t = Tree::<u32, 2>::new();
    let r = t.add_root(0);
    let a = t.add_child_node(r, 0, 1).unwrap();
    let e = t.add_child_node(r, 0, 2);
    println!("second add at occupied slot: is_err={} len={} reachable={} child0={:?} a={}",
        e.is_err(), t.len(), t.dfs_iter().count(), t.tree_node(r).unwrap().children[0], a);
}
