// unit pwl_inf_norm — C17: schema::inf_norm (src/distill/schema.rs): the indicator tree of a box  min <= x_i <= max  (one or both bounds)
// Proved for every dimension >= 1 and every finite bound: the tree is a well-formed chain and denotes [1] inside the box (closed) and [0] outside.
use vstd::prelude::*;
use std::marker::PhantomData;
use std::mem;
use std::ops::{Add, Sub, Mul, Div, Neg};
verus! {
global size_of usize == 8;

//@include prelude/inc_pwl_core.rs
//@include prelude/chain_spec.rs
//@include prelude/textbook_spec.rs
//@include prelude/chain_build_spec.rs

// row j of a function as a one-row predicate function
pub open spec fn one_row_of(f: AffFunc, g: AffFunc, j: int) -> bool {
    f.ok() && f.mat.ncols() == g.mat.ncols() && f.mat.nrows() == 1
        && forall|x: V| x.len() == g.mat.ncols() ==> (#[trigger] f.row_sat(0, x) <==> g.row_sat(j, x))
}
// rule I14 (as in unit pwl_from_poly): `f.row_iter()` with `.to_owned()` applied to every item: the rows of the function as owned one-row functions (TRUSTED helper)
#[verifier::external_body]
pub fn aff_row_fns(f: &AffFunc) -> (r: Vec<AffFunc>)
    ensures r@.len() == f.mat.nrows(), forall|j: int| 0 <= j < r@.len() ==> one_row_of(#[trigger] r@[j], *f, j)
{ unimplemented!() }

// the conditions tested by the chain: the rows of `first`, then those of `second`
pub open spec fn inf_rows(first: AffFunc, second: Option<AffFunc>, dim: usize) -> RowSpec {
    RowSpec { n: (if second is Some { 2 * dim } else { dim as int }) as int, dim: dim as int,
        sat: |k: int, x: V| if k < dim { first.row_sat(k, x) } else { second.unwrap().row_sat(k - dim, x) } }
}
// textbook: inside the (closed) box
pub open spec fn in_box(dim: usize, lo: Option<real>, hi: Option<real>, x: V) -> bool {
    forall|i: int| 0 <= i < dim ==> (lo matches Some(m) ==> #[trigger] x[i] >= m) && (hi matches Some(m) ==> x[i] <= m)
}
pub open spec fn lower_fn(f: AffFunc, dim: usize, m: real) -> bool {
    f.ok() && f.mat.nrows() == dim && f.mat.ncols() == dim && f.mat.m() == mneg(eye(dim as int)) && f.bias.v() == vneg(vconst(dim as int, m))
}
pub open spec fn upper_fn(f: AffFunc, dim: usize, m: real) -> bool {
    f.ok() && f.mat.nrows() == dim && f.mat.ncols() == dim && f.mat.m() == eye(dim as int) && f.bias.v() == vconst(dim as int, m)
}
pub proof fn lemma_lower_row(f: AffFunc, dim: usize, m: real, k: int, x: V)
    requires lower_fn(f, dim, m), 0 <= k < dim, x.len() == dim
    ensures f.row_sat(k, x) <==> x[k] >= m
{
    let row = f.mat.m()[k];
    assert(row == vneg(eye(dim as int)[k]));
    assert forall|j: int| 0 <= j < dim && j != k implies row[j] == 0real by { }
    assert(row[k] == -1real);
    lemma_dotp_unit(row, x, dim as int, k, -1real);
    assert((-1real) * x[k] == -x[k]) by(nonlinear_arith);
    assert(f.bias.v()[k] == -m);
}
pub proof fn lemma_upper_row(f: AffFunc, dim: usize, m: real, k: int, x: V)
    requires upper_fn(f, dim, m), 0 <= k < dim, x.len() == dim
    ensures f.row_sat(k, x) <==> x[k] <= m
{
    let row = f.mat.m()[k];
    assert forall|j: int| 0 <= j < dim && j != k implies row[j] == 0real by { }
    assert(row[k] == 1real);
    lemma_dotp_unit(row, x, dim as int, k, 1real);
    assert(1real * x[k] == x[k]) by(nonlinear_arith);
}
// the chain conditions hold together exactly inside the box
pub proof fn lemma_inf_rows_box(first: AffFunc, second: Option<AffFunc>, dim: usize, lo: Option<real>, hi: Option<real>, x: V)
    requires x.len() == dim, dim >= 1, lo is Some || hi is Some,
        lo is Some ==> lower_fn(first, dim, lo.unwrap()), lo is Some && hi is Some ==> second is Some && upper_fn(second.unwrap(), dim, hi.unwrap()),
        lo is Some && hi is None ==> second is None, lo is None ==> upper_fn(first, dim, hi.unwrap()) && second is None,
    ensures inf_rows(first, second, dim).all(x) <==> in_box(dim, lo, hi, x)
{
    let r = inf_rows(first, second, dim);
    assert forall|k: int| 0 <= k < dim implies (#[trigger] (r.sat)(k, x) <==> (if lo is Some { x[k] >= lo.unwrap() } else { x[k] <= hi.unwrap() })) by {
        if lo is Some { lemma_lower_row(first, dim, lo.unwrap(), k, x); } else { lemma_upper_row(first, dim, hi.unwrap(), k, x); }
    }
    if second is Some {
        assert forall|k: int| dim <= k < 2 * dim implies (#[trigger] (r.sat)(k, x) <==> x[k - dim] <= hi.unwrap()) by { lemma_upper_row(second.unwrap(), dim, hi.unwrap(), k - dim, x); }
    }
    if r.all(x) {
        assert forall|i: int| 0 <= i < dim implies (lo matches Some(m) ==> #[trigger] x[i] >= m) && (hi matches Some(m) ==> x[i] <= m) by {
            assert((r.sat)(i, x));
            if second is Some { assert((r.sat)(i + dim, x)); }
        }
    }
    if in_box(dim, lo, hi, x) {
        assert forall|k: int| 0 <= k < r.n implies #[trigger] (r.sat)(k, x) by {
            if k < dim { assert(x[k] == x[k]); } else { assert(x[k - dim] == x[k - dim]); }
        }
    }
}


pub open spec fn is_zero_fn(f: AffFunc, dim: usize) -> bool {
    f.ok() && f.mat.nrows() == 1 && f.mat.ncols() == dim && forall|x: V| x.len() == dim ==> #[trigger] f.ap(x) == seq![0real]
}
// a cloned row function is the chain condition number k
pub proof fn lemma_row_is(r: AffFunc, g: AffFunc, src: AffFunc, first: AffFunc, second: Option<AffFunc>, dim: usize, j: int, k: int)
    requires one_row_of(r, src, j), g.mat.m() == r.mat.m(), g.bias.v() == r.bias.v(), g.mat.nrows() == r.mat.nrows(), g.mat.ncols() == r.mat.ncols(), src.mat.ncols() == dim,
        0 <= j < dim, (k == j && src == first) || (k == dim + j && second == Some(src)),
    ensures row_fn_of(g, inf_rows(first, second, dim), k)
{
    let rs = inf_rows(first, second, dim);
    assert forall|x: V| x.len() == rs.dim implies (#[trigger] g.row_sat(0, x) <==> (rs.sat)(k, x)) by { assert(r.row_sat(0, x) <==> src.row_sat(j, x)); }
}

//@fn src/distill/schema.rs | - | inf_norm
//@bodysub let min_aff = minimum.map(|min| AffFunc::from_mats(-Array2::eye(dim), -Array1::from_elem(dim, min))); => let min_aff = match minimum { Some(min) => Some(AffFunc::from_mats(-Array2::eye(dim), -Array1::from_elem(dim, min))), None => None };
//@bodysub let max_aff = maximum.map(|max| AffFunc::from_mats(Array2::eye(dim), Array1::from_elem(dim, max))); => let max_aff = match maximum { Some(max) => Some(AffFunc::from_mats(Array2::eye(dim), Array1::from_elem(dim, max))), None => None };
//@bodysub let mut row_iter = first.row_iter(); => let __r1 = aff_row_fns(&first);
//@bodysub let mut dd = AffTree::from_aff(row_iter.next().unwrap().to_owned()); => let mut dd = AffTree::from_aff(__r1[0].clone_aff());
//@bodysub for aff in row_iter { => let mut __j: usize = 1; while __j < __r1.len() { let aff = &__r1[__j]; __j += 1;
//@bodysub for aff in aff.row_iter() { => let __r2 = aff_row_fns(&aff); let mut __k: usize = 0; while __k < __r2.len() { let aff = &__r2[__k]; __k += 1;
//@bodysub aff.to_owned() => aff.clone_aff()
//@bodysub AffFunc::constant(dim, 0.) => AffFunc::constant(dim, flit(0, 1))
//@bodysub AffFunc::constant(dim, 1.) => AffFunc::constant(dim, flit(1, 1))
//@spec
    requires dim >= 1, dim < usize::MAX / 2,
        minimum is Some || maximum is Some,       // documented panic: "One of minimum and maximum must be specified"
        minimum matches Some(m) ==> finite(m), maximum matches Some(m) ==> finite(m),
    ensures r.tree.wf(), r.tree.root == Some(0usize), r.in_dim == dim, aff_shape_ok(r.a(), dim),
        forall|i: usize| r.a().dom().contains(i) && #[trigger] r.a()[i].isleaf ==> r.a()[i].value.aff.mat.nrows() == 1,
        // the indicator of the closed box
        forall|h: Map<usize, nat>, x: V| ranked_down(r.a(), h) && x.len() == dim ==> #[trigger] tree_fn(r.a(), h, 0, x)
            == Some(seq![if in_box(dim, match minimum { Some(m) => Some(m.rv()), None => None }, match maximum { Some(m) => Some(m.rv()), None => None }, x) { 1real } else { 0real }]),
//@hint start
    broadcast use axiom_array2_shape;
//@hint before let __r1 = aff_row_fns(&first);
    let ghost lo: Option<real> = match minimum { Some(m) => Some(m.rv()), None => None };
    let ghost hi: Option<real> = match maximum { Some(m) => Some(m.rv()), None => None };
    let ghost sec: Option<AffFunc> = second;
    let ghost rs = inf_rows(first, sec, dim);
    let ghost zf: AffFunc = choose|f: AffFunc| is_zero_fn(f, dim);
    let ghost ffz: Option<AffFunc> = Some(zf);
    proof {
        assert(lo is Some ==> lower_fn(first, dim, lo.unwrap()));
        assert(lo is Some && hi is Some ==> sec is Some && upper_fn(sec.unwrap(), dim, hi.unwrap()));
        assert(lo is None ==> upper_fn(first, dim, hi.unwrap()) && sec is None);
        assert(lo is Some && hi is None ==> sec is None);
    }
//@hint after let mut last_idx = dd.tree.get_root_idx();
    let ghost mut c: Seq<usize> = seq![0usize];
    proof {
        lemma_row_is(__r1@[0], dd.a()[0].value.aff, first, first, sec, dim, 0, 0);
        assert(no_kids(dd.a()[0]));
        lemma_fp_init(dd.a(), rs, ffz, dim, 1usize);
    }
//@loop 1
        invariant
            dim >= 1, dim < usize::MAX / 2, rs == inf_rows(first, sec, dim), ffz == Some(zf), zf == (choose|f: AffFunc| is_zero_fn(f, dim)), first.mat.ncols() == dim, first.mat.nrows() == dim,
            __r1@.len() == dim, forall|j: int| 0 <= j < __r1@.len() ==> one_row_of(#[trigger] __r1@[j], first, j),
            1 <= __j <= __r1@.len(),
            dd.tree.wf(), dd.tree.root == Some(0usize), dd.in_dim == dim,
            fp_inv(dd.a(), c, rs, ffz, dim, 1usize), c.len() == __j, last_idx == c.last(),
        decreases __r1@.len() - __j
//@hint loop 1 start
        let ghost a0 = dd.a();
        proof { lemma_fp_facts(dd.a(), c, rs, ffz, dim, 1usize); }
//@hint before#1 last_idx = dd.add_child_node(last_idx, 1, aff.clone_aff()).unwrap();
        let ghost a1 = dd.a();
        proof {
            let e = a1[c.last()].children[0].unwrap();
            assert(a1[c.last()].children@[0] == Some(e));
            assert(is_zero_fn(a1[e].value.aff, dim));
            assert(is_zero_fn(zf, dim));
            assert(same_ap(a1[e].value.aff, zf));
        }
//@hint after#1 last_idx = dd.add_child_node(last_idx, 1, aff.clone_aff()).unwrap();
        proof {
            lemma_row_is(__r1@[__j - 1], dd.a()[last_idx].value.aff, first, first, sec, dim, __j - 1, __j - 1);
            lemma_fp_step(a0, a1, dd.a(), c, rs, ffz, dim, 1usize, a1[c.last()].children[0].unwrap(), last_idx);
            c = c.push(last_idx);
        }
//@loop 2
            invariant
                dim >= 1, dim < usize::MAX / 2, rs == inf_rows(first, sec, dim), ffz == Some(zf), zf == (choose|f: AffFunc| is_zero_fn(f, dim)), sec == Some(aff), aff.mat.ncols() == dim, aff.mat.nrows() == dim,
                __r2@.len() == dim, forall|j: int| 0 <= j < __r2@.len() ==> one_row_of(#[trigger] __r2@[j], aff, j),
                0 <= __k <= __r2@.len(),
                dd.tree.wf(), dd.tree.root == Some(0usize), dd.in_dim == dim,
                fp_inv(dd.a(), c, rs, ffz, dim, 1usize), c.len() == dim + __k, last_idx == c.last(),
            decreases __r2@.len() - __k
//@hint loop 2 start
            let ghost a0 = dd.a();
            proof { lemma_fp_facts(dd.a(), c, rs, ffz, dim, 1usize); }
//@hint before#2 last_idx = dd.add_child_node(last_idx, 1, aff.clone_aff()).unwrap();
            let ghost a1 = dd.a();
            proof {
                let e = a1[c.last()].children[0].unwrap();
                assert(a1[c.last()].children@[0] == Some(e));
                assert(is_zero_fn(a1[e].value.aff, dim));
                assert(is_zero_fn(zf, dim));
                assert(same_ap(a1[e].value.aff, zf));
            }
//@hint after#2 last_idx = dd.add_child_node(last_idx, 1, aff.clone_aff()).unwrap();
            proof {
                lemma_row_is(__r2@[__k - 1], dd.a()[last_idx].value.aff, sec.unwrap(), first, sec, dim, __k - 1, dim + __k - 1);
                lemma_fp_step(a0, a1, dd.a(), c, rs, ffz, dim, 1usize, a1[c.last()].children[0].unwrap(), last_idx);
                c = c.push(last_idx);
            }
//@hint before#3 dd.add_child_node(last_idx, 0, AffFunc::constant(dim, flit(0, 1))) .unwrap();
    let ghost b0 = dd.a();
    proof { lemma_fp_facts(dd.a(), c, rs, ffz, dim, 1usize); assert(c.len() == rs.n); }
//@hint before dd.add_child_node(last_idx, 1, AffFunc::constant(dim, flit(1, 1))) .unwrap();
    let ghost b1 = dd.a();
    proof {
        let e = b1[c.last()].children[0].unwrap();
        assert(b1[c.last()].children@[0] == Some(e));
        assert(is_zero_fn(b1[e].value.aff, dim));
        assert(is_zero_fn(zf, dim));
        assert(same_ap(b1[e].value.aff, zf));
    }
//@hint after dd.add_child_node(last_idx, 1, AffFunc::constant(dim, flit(1, 1))) .unwrap();
    proof {
        let t1 = dd.a()[c.last()].children[1].unwrap();
        assert(dd.a()[c.last()].children@[1] == Some(t1));
        let ft = dd.a()[t1].value.aff;
        lemma_fp_complete(b0, b1, dd.a(), c, rs, ft, ffz, dim, 1usize, b1[c.last()].children[0].unwrap(), t1);
        lemma_fp_final(dd.a(), c, rs, ft, ffz, dim, t1);
        assert forall|h: Map<usize, nat>, x: V| ranked_down(dd.a(), h) && x.len() == dim implies #[trigger] tree_fn(dd.a(), h, 0, x)
            == Some(seq![if in_box(dim, lo, hi, x) { 1real } else { 0real }]) by {
            lemma_inf_rows_box(first, sec, dim, lo, hi, x);
            assert(ft.ap(x) =~= seq![1real]);
            assert(zf.ap(x) == seq![0real]);
        }
    }
//@end

} // verus!
fn main() {}
