// ---- prelude/pwl_spec.rs : what a piece-wise linear tree denotes ----
pub type AffNode<const K: usize> = TreeNode<AffContent, K>;
pub type AArena<const K: usize> = Map<usize, TreeNode<AffContent, K>>;

// value of the decision bits: sum over rows i < n of 2^i [row i holds at x]
pub open spec fn label_val(aff: &AffFunc, x: V, n: int) -> int
    decreases n
{
    if n <= 0 { 0 } else { label_val(aff, x, n - 1) + (if aff.row_sat(n - 1, x) { (1usize << ((n - 1) as usize)) as int } else { 0 }) }
}
pub open spec fn decide(aff: &AffFunc, x: V) -> int { label_val(aff, x, aff.mat.nrows()) }

// the partial function denoted by the subtree below idx (None = undefined)
pub open spec fn tree_fn<const K: usize>(a: AArena<K>, h: Map<usize, nat>, idx: usize, x: V) -> Option<V>
    decreases h[idx]
{
    let nd = a[idx];
    if nd.isleaf { Some(nd.value.aff.ap(x)) }
    else {
        let l = decide(&nd.value.aff, x);
        if 0 <= l < K && nd.children[l].is_some() && h[nd.children[l].unwrap()] < h[idx] {
            tree_fn(a, h, nd.children[l].unwrap(), x)
        } else { None }
    }
}

// follow the given labels from node nd; every label must be the one the decision selects for x
pub open spec fn follows<const K: usize>(a: AArena<K>, nd: AffNode<K>, x: V, ls: Seq<usize>) -> Option<AffNode<K>>
    decreases ls.len()
{
    if ls.len() == 0 { Some(nd) }
    else if !nd.isleaf && decide(&nd.value.aff, x) == ls[0] && ls[0] < K && nd.children[ls[0] as int].is_some() && a.dom().contains(nd.children[ls[0] as int].unwrap()) {
        follows(a, a[nd.children[ls[0] as int].unwrap()], x, ls.drop_first())
    } else { None }
}
pub proof fn lemma_follows_push<const K: usize>(a: AArena<K>, nd: AffNode<K>, x: V, ls: Seq<usize>, l: usize)
    requires follows(a, nd, x, ls).is_some()
    ensures follows(a, nd, x, ls.push(l)) == follows(a, follows(a, nd, x, ls).unwrap(), x, seq![l])
    decreases ls.len()
{
    if ls.len() == 0 {
        assert(ls.push(l) =~= seq![l]);
    } else {
        let c = nd.children[ls[0] as int].unwrap();
        assert(ls.push(l).drop_first() =~= ls.drop_first().push(l));
        assert(ls.push(l)[0] == ls[0]);
        lemma_follows_push(a, a[c], x, ls.drop_first(), l);
    }
}

// the path found by following decisions determines the denoted value
pub proof fn lemma_follows_tree_fn<const K: usize>(a: AArena<K>, h: Map<usize, nat>, idx: usize, x: V, ls: Seq<usize>)
    requires ranked_down(a, h), kids_ok(a), a.dom().contains(idx), follows(a, a[idx], x, ls).is_some()
    ensures
        follows(a, a[idx], x, ls).unwrap().isleaf ==> tree_fn(a, h, idx, x) == Some(follows(a, a[idx], x, ls).unwrap().value.aff.ap(x)),
        !follows(a, a[idx], x, ls).unwrap().isleaf && 0 <= decide(&follows(a, a[idx], x, ls).unwrap().value.aff, x) < K
            && follows(a, a[idx], x, ls).unwrap().children[decide(&follows(a, a[idx], x, ls).unwrap().value.aff, x)].is_none() ==> tree_fn(a, h, idx, x).is_none(),
    decreases ls.len()
{
    if ls.len() > 0 {
        let nd = a[idx];
        let c = nd.children[ls[0] as int].unwrap();
        assert(h[c] < h[idx]);
        lemma_follows_tree_fn(a, h, c, x, ls.drop_first());
    }
}

// shape invariant of C04: input dimensions, decision row counts
pub open spec fn aff_shape_ok<const K: usize>(a: AArena<K>, in_dim: usize) -> bool {
    forall|i: usize| #![trigger a[i].value] a.dom().contains(i) ==> a[i].value.aff.ok() && a[i].value.aff.mat.ncols() == in_dim
        && (!a[i].isleaf ==> 1 <= a[i].value.aff.mat.nrows() < 16 && (1usize << (a[i].value.aff.mat.nrows() as usize)) <= K)
}
// ---- end pwl_spec ----
