// ---- prelude/reach_spec.rs : evaluation paths (reaches) and routing along a recorded path ----
// the evaluation of x below idx passes node t
pub open spec fn reaches<const K: usize>(a: AArena<K>, h: Map<usize, nat>, idx: usize, x: V, t: usize) -> bool
    decreases h[idx]
{
    if idx == t { true }
    else {
        let nd = a[idx];
        if nd.isleaf { false }
        else {
            let l = decide(&nd.value.aff, x);
            0 <= l < K && nd.children[l].is_some() && h[nd.children[l].unwrap()] < h[idx] && reaches(a, h, nd.children[l].unwrap(), x, t)
        }
    }
}
pub proof fn lemma_reaches_rank_indep<const K: usize>(a: AArena<K>, h0: Map<usize, nat>, h1: Map<usize, nat>, idx: usize, x: V, t: usize)
    requires ranked_down(a, h0), ranked_down(a, h1), kids_ok(a), a.dom().contains(idx)
    ensures reaches(a, h1, idx, x, t) == reaches(a, h0, idx, x, t)
    decreases h0[idx]
{
    let nd = a[idx];
    if idx != t && !nd.isleaf {
        let l = decide(&nd.value.aff, x);
        if 0 <= l < K && nd.children[l].is_some() {
            assert(h0[nd.children[l].unwrap()] < h0[idx]);
            assert(h1[nd.children[l].unwrap()] < h1[idx]);
            lemma_reaches_rank_indep(a, h0, h1, nd.children[l].unwrap(), x, t);
        }
    }
}
// a node that is passed lies at or below the start
pub proof fn lemma_reaches_height<const K: usize>(a: AArena<K>, h: Map<usize, nat>, idx: usize, x: V, t: usize)
    requires reaches(a, h, idx, x, t)
    ensures h[t] <= h[idx]
    decreases h[idx]
{
    if idx != t {
        let c = a[idx].children[decide(&a[idx].value.aff, x)].unwrap();
        lemma_reaches_height(a, h, c, x, t);
    }
}
// passing t and then, from t's selected child on, passing u
pub proof fn lemma_reaches_step<const K: usize>(a: AArena<K>, h: Map<usize, nat>, idx: usize, x: V, t: usize, u: usize)
    requires reaches(a, h, idx, x, t), reaches(a, h, t, x, u)
    ensures reaches(a, h, idx, x, u)
    decreases h[idx]
{
    if idx != t && idx != u {
        let c = a[idx].children[decide(&a[idx].value.aff, x)].unwrap();
        lemma_reaches_step(a, h, c, x, t, u);
    }
}

// two ancestors of the same node are comparable
pub proof fn lemma_comparable<const K: usize>(a: AArena<K>, c1: usize, c2: usize, t: usize, f1: nat, f2: nat)
    requires is_desc(a, c1, t, f1), is_desc(a, c2, t, f2)
    ensures c1 == c2 || desc(a, c1, c2) || desc(a, c2, c1)
    decreases f1
{
    let p = a[t].parent.unwrap();
    if p == c1 {
        if p != c2 { assert(is_desc(a, c2, c1, (f2 - 1) as nat)); }
    } else if p == c2 {
        assert(is_desc(a, c1, c2, (f1 - 1) as nat));
    } else {
        lemma_comparable(a, c1, c2, p, (f1 - 1) as nat, (f2 - 1) as nat);
    }
}
// two children of the same node are not nested
pub proof fn lemma_siblings_not_nested<const K: usize>(a: AArena<K>, d: Map<usize, nat>, pp: usize, c1: usize, c2: usize)
    requires ranked(a, d), a.dom().contains(c1), a.dom().contains(c2), a[c1].parent == Some(pp), a[c2].parent == Some(pp), desc(a, c1, c2)
    ensures false
{
    let f = choose|f: nat| is_desc(a, c1, c2, f);
    assert(d[pp] < d[c1] && d[pp] < d[c2]);
    if pp == c1 { } else { lemma_desc_rank(a, d, c1, pp, (f - 1) as nat); }
}
// extending an ancestor chain at its top
pub proof fn lemma_desc_up<const K: usize>(a: AArena<K>, idx: usize, c: usize, t: usize, f: nat)
    requires is_desc(a, c, t, f), a.dom().contains(c), a[c].parent == Some(idx)
    ensures is_desc(a, idx, t, f + 1)
    decreases f
{
    let p = a[t].parent.unwrap();
    if p == c { assert(is_desc(a, idx, c, 1)); assert(is_desc(a, idx, c, f)) by { lemma_desc_fuel(a, idx, c, 1, f); } }
    else { lemma_desc_up(a, idx, c, p, (f - 1) as nat); }
}
pub proof fn lemma_desc_fuel<const K: usize>(a: AArena<K>, anc: usize, i: usize, f: nat, g: nat)
    requires is_desc(a, anc, i, f), f <= g
    ensures is_desc(a, anc, i, g)
    decreases f
{
    if a[i].parent.unwrap() != anc { lemma_desc_fuel(a, anc, a[i].parent.unwrap(), (f - 1) as nat, (g - 1) as nat); }
}
// a node passed by the evaluation below idx is a descendant of idx
pub proof fn lemma_reaches_desc<const K: usize>(a: AArena<K>, h: Map<usize, nat>, idx: usize, x: V, t: usize)
    requires reaches(a, h, idx, x, t), idx != t, kids_ok(a), a.dom().contains(idx)
    ensures desc(a, idx, t)
    decreases h[idx]
{
    let c = a[idx].children[decide(&a[idx].value.aff, x)].unwrap();
    assert(a.dom().contains(c) && a[c].parent == Some(idx));
    if c == t { assert(is_desc(a, idx, t, 1)); }
    else {
        lemma_reaches_desc(a, h, c, x, t);
        let f = choose|f: nat| is_desc(a, c, t, f);
        lemma_desc_up(a, idx, c, t, f);
    }
}
// the recorded path: each node lists the next one as a child; the last one is the node the half-spaces are reported for
pub open spec fn path_chain<const K: usize>(a: AArena<K>, path: Seq<usize>) -> bool {
    forall|k: int| 0 <= k < path.len() - 1 ==> a.dom().contains(#[trigger] path[k]) && exists|l: int| 0 <= l < K && #[trigger] a[path[k]].children[l] == Some(path[k + 1])
}
pub proof fn lemma_path_below<const K: usize>(a: AArena<K>, path: Seq<usize>, k: int)
    requires path_chain(a, path), kids_ok(a), 0 <= k < path.len()
    ensures path[k] == path.last() || desc(a, path[k], path.last())
    decreases path.len() - k
{
    if k < path.len() - 1 {
        lemma_path_below(a, path, k + 1);
        let l = choose|l: int| 0 <= l < K && #[trigger] a[path[k]].children[l] == Some(path[k + 1]);
        let c = path[k + 1];
        assert(a.dom().contains(c) && a[c].parent == Some(path[k]));
        if c == path.last() { assert(is_desc(a, path[k], c, 1)); }
        else { let f = choose|f: nat| is_desc(a, c, path.last(), f); lemma_desc_up(a, path[k], c, path.last(), f); }
    }
}
// two children of one node that both lie at or above `last` are the same child
pub proof fn lemma_child_unique<const K: usize>(a: AArena<K>, d: Map<usize, nat>, pk: usize, c: usize, q: usize, last: usize)
    requires ranked(a, d), a.dom().contains(c), a.dom().contains(q), a[c].parent == Some(pk), a[q].parent == Some(pk),
        c == last || desc(a, c, last), q == last || desc(a, q, last)
    ensures c == q
{
    if c != q {
        if c == last { lemma_siblings_not_nested(a, d, pk, q, c); }
        else if q == last { lemma_siblings_not_nested(a, d, pk, c, q); }
        else {
            let f1 = choose|f: nat| is_desc(a, c, last, f);
            let f2 = choose|f: nat| is_desc(a, q, last, f);
            lemma_comparable(a, c, q, last, f1, f2);
            if desc(a, c, q) { lemma_siblings_not_nested(a, d, pk, c, q); } else { lemma_siblings_not_nested(a, d, pk, q, c); }
        }
    }
}
// an input whose evaluation passes the last node of the path is routed along the path
pub proof fn lemma_reaches_routed<const K: usize>(a: AArena<K>, h: Map<usize, nat>, path: Seq<usize>, x: V, k: int)
    requires path_chain(a, path), wf_at(a, Some(path[0])), ranked_down(a, h), 0 <= k < path.len(), reaches(a, h, path[k], x, path.last()),
    ensures forall|j: int| k <= j < path.len() - 1 ==> 0 <= decide(&a[#[trigger] path[j]].value.aff, x) < K
        && a[path[j]].children[decide(&a[path[j]].value.aff, x)] == Some(path[j + 1])
    decreases path.len() - k
{
    if k < path.len() - 1 {
        lemma_reaches_routed_step(a, h, path, x, k);
        lemma_reaches_routed(a, h, path, x, k + 1);
    }
}
pub proof fn lemma_reaches_routed_step<const K: usize>(a: AArena<K>, h: Map<usize, nat>, path: Seq<usize>, x: V, k: int)
    requires path_chain(a, path), wf_at(a, Some(path[0])), ranked_down(a, h), 0 <= k < path.len() - 1, reaches(a, h, path[k], x, path.last()),
    ensures 0 <= decide(&a[path[k]].value.aff, x) < K, a[path[k]].children[decide(&a[path[k]].value.aff, x)] == Some(path[k + 1]), reaches(a, h, path[k + 1], x, path.last())
{
    let last = path.last();
    let pk = path[k];
    let q = path[k + 1];
    let lq = choose|l: int| 0 <= l < K && #[trigger] a[pk].children[l] == Some(q);
    assert(a.dom().contains(q) && a[q].parent == Some(pk));
    let d = choose|d: Map<usize, nat>| ranked(a, d);
    lemma_path_below(a, path, k + 1);
    // pk is a proper ancestor of last, so the evaluation goes on below pk
    assert(pk != last) by {
        assert(d[pk] < d[q]);
        if q != last { let f = choose|f: nat| is_desc(a, q, last, f); lemma_desc_rank(a, d, q, last, f); }
    }
    let l = decide(&a[pk].value.aff, x);
    let c = a[pk].children[l].unwrap();
    assert(a.dom().contains(c) && a[c].parent == Some(pk));
    assert(reaches(a, h, c, x, last));
    if c != last { lemma_reaches_desc(a, h, c, x, last); }
    lemma_child_unique(a, d, pk, c, q, last);
}
// every input whose evaluation passes node n satisfies q
pub open spec fn edge_covers<const K: usize>(a: AArena<K>, root: usize, n: usize, q: Polytope, in_dim: usize) -> bool {
    forall|h: Map<usize, nat>, x: V| #![trigger reaches(a, h, root, x, n)] ranked_down(a, h) && x.len() == in_dim && reaches(a, h, root, x, n) ==> q.sat(x)
}
// ---- end reach_spec ----
