//! Bounded contract replay for the generic arena tree: C12 (operation sequences) and C13 (traversals, metrics).
use std::collections::{BTreeMap, BTreeSet};

use affinitree::tree::graph::Tree;
use affinitree::tree::iter::{Bfs, DfsEdge, DfsPre, TraversalMut};

use crate::gen::*;
use crate::report::*;

#[derive(Clone, Debug, PartialEq)]
pub struct MNode {
    pub value: u32,
    pub parent: Option<usize>,
    pub children: Vec<Option<usize>>,
    pub isleaf: bool,
}

/// arena view of the real tree
pub fn model<const K: usize>(t: &Tree<u32, K>) -> BTreeMap<usize, MNode> {
    t.node_iter()
        .map(|(i, n)| (i, MNode { value: n.value, parent: n.parent, children: n.children.to_vec(), isleaf: n.isleaf }))
        .collect()
}

/// executable form of wf (C12): returns the first broken clause
pub fn wf(m: &BTreeMap<usize, MNode>, root: Option<usize>) -> Result<(), String> {
    if m.is_empty() {
        return if root.is_none() { Ok(()) } else { Err("empty arena with a root".into()) };
    }
    let r = root.ok_or("non-empty arena without root")?;
    if !m.contains_key(&r) {
        return Err("root not stored".into());
    }
    for (i, n) in m {
        if n.parent.is_none() && *i != r {
            return Err(format!("node {i} has no parent but is not the root"));
        }
        if *i == r && n.parent.is_some() {
            return Err("root has a parent".into());
        }
        if let Some(p) = n.parent {
            let pn = m.get(&p).ok_or(format!("parent {p} of node {i} is not stored"))?;
            if pn.children.iter().filter(|c| **c == Some(*i)).count() != 1 {
                return Err(format!("node {i} is not listed exactly once by its parent {p}"));
            }
        }
        let mut k = 0;
        for c in n.children.iter().flatten() {
            k += 1;
            let cn = m.get(c).ok_or(format!("child {c} of node {i} is not stored"))?;
            if cn.parent != Some(*i) {
                return Err(format!("child {c} of node {i} points to parent {:?}", cn.parent));
            }
        }
        if n.isleaf != (k == 0) {
            return Err(format!("node {i}: isleaf={} with {k} children", n.isleaf));
        }
    }
    let reach = subtree(m, r);
    if reach.len() != m.len() {
        return Err(format!("len()={} but {} nodes reachable from the root", m.len(), reach.len()));
    }
    Ok(())
}

pub fn subtree(m: &BTreeMap<usize, MNode>, s: usize) -> Vec<usize> {
    // pre-order, children by ascending label
    let mut out = vec![];
    let mut st = vec![s];
    let mut guard = 0;
    while let Some(i) = st.pop() {
        out.push(i);
        guard += 1;
        if guard > 10 * (m.len() + 1) {
            break;
        }
        if let Some(n) = m.get(&i) {
            for c in n.children.iter().rev().flatten() {
                st.push(*c);
            }
        }
    }
    out
}

fn pre_items(m: &BTreeMap<usize, MNode>, s: usize) -> Vec<(usize, usize, usize)> {
    // (depth, index, remaining siblings)
    fn rec(m: &BTreeMap<usize, MNode>, i: usize, depth: usize, rem: usize, out: &mut Vec<(usize, usize, usize)>) {
        out.push((depth, i, rem));
        let kids: Vec<usize> = m[&i].children.iter().flatten().cloned().collect();
        for (j, c) in kids.iter().enumerate() {
            rec(m, *c, depth + 1, kids.len() - 1 - j, out);
        }
    }
    let mut out = vec![];
    rec(m, s, 0, 0, &mut out);
    out
}

fn pre_edges(m: &BTreeMap<usize, MNode>, s: usize) -> Vec<(usize, usize, usize)> {
    fn rec(m: &BTreeMap<usize, MNode>, i: usize, out: &mut Vec<(usize, usize, usize)>) {
        for (l, c) in m[&i].children.iter().enumerate() {
            if let Some(c) = c {
                out.push((i, l, *c));
                rec(m, *c, out);
            }
        }
    }
    let mut out = vec![];
    rec(m, s, &mut out);
    out
}

fn bfs_items(m: &BTreeMap<usize, MNode>, s: usize) -> Vec<(usize, usize, usize)> {
    let mut out = vec![];
    let mut q = std::collections::VecDeque::new();
    q.push_back((0usize, s, 0usize));
    while let Some((d, i, rem)) = q.pop_front() {
        out.push((d, i, rem));
        let kids: Vec<usize> = m[&i].children.iter().flatten().cloned().collect();
        for (j, c) in kids.iter().enumerate() {
            q.push_back((d + 1, *c, kids.len() - 1 - j));
        }
    }
    out
}

fn is_desc(m: &BTreeMap<usize, MNode>, anc: usize, i: usize) -> bool {
    let mut cur = i;
    while let Some(p) = m[&cur].parent {
        if p == anc {
            return true;
        }
        cur = p;
    }
    false
}

pub fn build_plain<const K: usize>(rng: &mut Rng, shape: &Shape, scramble: bool) -> Tree<u32, K> {
    let mut t = Tree::<u32, K>::new();
    let mut counter = 100u32;
    let root = t.add_root(counter);
    // random parent-before-child insertion order with decoy nodes (see gen::build)
    let mut pending: Vec<(usize, usize, Shape, bool)> = vec![];
    let mut decoys: Vec<(usize, usize, Shape)> = vec![];
    if let Shape::Dec(cs) = shape {
        for (l, c) in cs.iter().enumerate() {
            if let Some(c) = c {
                pending.push((root, l, c.clone(), true));
            }
        }
    }
    while !pending.is_empty() || !decoys.is_empty() {
        let undo = !decoys.is_empty() && (pending.is_empty() || rng.chance(1, 3));
        if undo {
            let k = rng.below(decoys.len());
            let (p, l, sh) = decoys.swap_remove(k);
            t.remove_child(p, l);
            pending.push((p, l, sh, false));
            continue;
        }
        let k = if scramble { rng.below(pending.len()) } else { 0 };
        let (p, l, sh, may_decoy) = pending.remove(k);
        if scramble && may_decoy && rng.chance(1, 3) {
            let tmp = t.add_child_node(p, l, 7).unwrap();
            if rng.chance(1, 2) {
                t.add_child_node(tmp, rng.below(K), 8).unwrap();
            }
            decoys.push((p, l, sh));
            continue;
        }
        counter += 1;
        let idx = t.add_child_node(p, l, counter).unwrap();
        if let Shape::Dec(cs) = &sh {
            for (cl, c) in cs.iter().enumerate() {
                if let Some(c) = c {
                    pending.push((idx, cl, c.clone(), true));
                }
            }
        }
    }
    t
}

// ------------------------------------------------------------------------------------------ C13

fn traversal_case<const K: usize>(rep: &mut Report, idx: u64, t: &Tree<u32, K>, descr: &str) {
    let m = model(t);
    let root = t.get_root_idx();
    rep.evaluations += 1;
    for &s in m.keys() {
        // ---- DfsPre
        let want = pre_items(&m, s);
        let got: Vec<(usize, usize, usize)> = DfsPre::iter(t, s).map(|d| d.extract()).collect();
        if got != want {
            rep.viol(idx, "dfs-order", format!("DfsPre from {s}: got {got:?} want {want:?} | {descr}"));
        }
        // size_hint and skip positions (with a repeated skip)
        for skip_at in 0..=want.len() {
            for repeat in 1..=2 {
                let mut it = DfsPre::new(t, s);
                let mut seen = vec![];
                let mut expect: Vec<(usize, usize, usize)> = want.clone();
                let mut pos = 0;
                loop {
                    let remaining = expect.len() - pos;
                    let (lb, ub) = it.size_hint();
                    if lb > remaining || ub.map_or(false, |u| u < remaining) {
                        rep.viol(idx, "dfs-size-hint", format!("DfsPre from {s} after {pos} items (skip_at={skip_at}x{repeat}): size_hint ({lb},{ub:?}) does not bracket {remaining} | {descr}"));
                        break;
                    }
                    match it.next(t) {
                        None => break,
                        Some(d) => {
                            seen.push(d.extract());
                            pos += 1;
                            if seen.len() == skip_at {
                                for _ in 0..repeat {
                                    let r = guarded(|| it.skip_subtree());
                                    if r.is_err() {
                                        rep.viol(idx, "dfs-skip", format!("DfsPre from {s}: skip_subtree panicked (skip_at={skip_at}x{repeat}) | {descr}"));
                                    }
                                }
                                let last = d.index;
                                let head: Vec<_> = expect[..pos].to_vec();
                                let tail: Vec<_> = expect[pos..].iter().filter(|x| !is_desc(&m, last, x.1)).cloned().collect();
                                expect = head;
                                expect.extend(tail);
                            }
                        }
                    }
                    if seen.len() > want.len() + 2 {
                        break;
                    }
                }
                if seen != expect {
                    rep.viol(idx, "dfs-skip", format!("DfsPre from {s} with skip_subtree x{repeat} after item {skip_at}: got {seen:?} want {expect:?} | {descr}"));
                }
            }
        }
        // ---- DfsEdge
        let want_e = pre_edges(&m, s);
        let got_e: Vec<(usize, usize, usize)> = DfsEdge::iter(t, s).map(|e| (e.src, e.label, e.dest)).collect();
        if got_e != want_e {
            rep.viol(idx, "edge-order", format!("DfsEdge from {s}: got {got_e:?} want {want_e:?} | {descr}"));
        } else {
            for (skip_at, repeat) in (0..=want_e.len()).flat_map(|q| [(q, 1usize), (q, 2usize)]) {
                let mut it = DfsEdge::new(t, s);
                let mut seen = vec![];
                let mut expect = want_e.clone();
                let mut pos = 0;
                loop {
                    let remaining = expect.len() - pos;
                    let (lb, ub) = it.size_hint();
                    if lb > remaining || ub.map_or(false, |u| u < remaining) {
                        rep.viol(idx, "edge-size-hint", format!("DfsEdge from {s} after {pos} items (skip_at={skip_at}): size_hint ({lb},{ub:?}) does not bracket {remaining} | {descr}"));
                        break;
                    }
                    match it.next(t) {
                        None => break,
                        Some(e) => {
                            seen.push((e.src, e.label, e.dest));
                            pos += 1;
                            if seen.len() == skip_at {
                                for _ in 0..repeat {
                                    it.skip_subtree();
                                }
                                let last = e.dest;
                                let head: Vec<_> = expect[..pos].to_vec();
                                let tail: Vec<_> = expect[pos..].iter().filter(|x| !is_desc(&m, last, x.2)).cloned().collect();
                                expect = head;
                                expect.extend(tail);
                            }
                        }
                    }
                    if seen.len() > want_e.len() + 2 {
                        break;
                    }
                }
                if seen != expect {
                    rep.viol(idx, "edge-skip", format!("DfsEdge from {s} with skip_subtree x{repeat} after item {skip_at}: got {seen:?} want {expect:?} | {descr}"));
                }
            }
        }
        // ---- Bfs
        let want_b = bfs_items(&m, s);
        let got_b: Vec<(usize, usize, usize)> = Bfs::iter(t, s).map(|d| d.extract()).collect();
        if got_b.iter().map(|x| (x.0, x.1)).collect::<Vec<_>>() != want_b.iter().map(|x| (x.0, x.1)).collect::<Vec<_>>() {
            rep.viol(idx, "bfs-order", format!("Bfs from {s}: got {got_b:?} want {want_b:?} | {descr}"));
        } else if got_b != want_b {
            rep.viol(idx, "bfs-remaining", format!("Bfs from {s}: remaining-sibling counters got {got_b:?} want {want_b:?} | {descr}"));
        }
        for (skip_at, repeat) in (0..=want_b.len()).flat_map(|q| [(q, 1usize), (q, 2usize)]) {
            let mut it = Bfs::new(t, s);
            let mut seen = vec![];
            let mut expect: Vec<(usize, usize)> = want_b.iter().map(|x| (x.0, x.1)).collect();
            let mut pos = 0;
            loop {
                let remaining = expect.len() - pos;
                let (lb, ub) = it.size_hint();
                if lb > remaining || ub.map_or(false, |u| u < remaining) {
                    rep.viol(idx, "bfs-size-hint", format!("Bfs from {s} after {pos} items (skip_at={skip_at}): size_hint ({lb},{ub:?}) does not bracket {remaining} | {descr}"));
                    break;
                }
                match it.next(t) {
                    None => break,
                    Some(d) => {
                        seen.push((d.depth, d.index));
                        pos += 1;
                        if seen.len() == skip_at {
                            for _ in 0..repeat {
                                it.skip_subtree();
                            }
                            let last = d.index;
                            let head: Vec<_> = expect[..pos].to_vec();
                            let tail: Vec<_> = expect[pos..].iter().filter(|x| !is_desc(&m, last, x.1)).cloned().collect();
                            expect = head;
                            expect.extend(tail);
                        }
                    }
                }
                if seen.len() > want_b.len() + 2 {
                    break;
                }
            }
            if seen != expect {
                rep.viol(idx, "bfs-skip", format!("Bfs from {s} with skip_subtree x{repeat} after item {skip_at}: got {seen:?} want {expect:?} | {descr}"));
            }
        }
        // ---- metrics per start node
        if t.num_nodes(s) != want.len() {
            rep.viol(idx, "metric", format!("num_nodes({s})={} want {} | {descr}", t.num_nodes(s), want.len()));
        }
        let mut path = vec![];
        let mut cur = s;
        while let Some(p) = m[&cur].parent {
            let l = m[&p].children.iter().position(|c| *c == Some(cur)).unwrap();
            path.push((p, l));
            cur = p;
        }
        path.reverse();
        match t.path_to_node(s) {
            Ok(p) if p == path => {}
            other => rep.viol(idx, "metric", format!("path_to_node({s}) = {other:?} want {path:?} | {descr}")),
        }
    }
    // ---- whole-tree metrics and index-order iterators
    let all = pre_items(&m, root);
    let maxd = all.iter().map(|x| x.0).max().unwrap_or(0);
    if t.depth() != maxd {
        rep.viol(idx, "metric", format!("depth()={} want {maxd} | {descr}", t.depth()));
    }
    let leaves: Vec<usize> = m.iter().filter(|(_, n)| n.children.iter().all(|c| c.is_none())).map(|(i, _)| *i).collect();
    if t.num_terminals() != leaves.len() {
        rep.viol(idx, "metric", format!("num_terminals()={} want {} | {descr}", t.num_terminals(), leaves.len()));
    }
    let ld: Vec<f64> = all.iter().filter(|x| leaves.contains(&x.1)).map(|x| x.0 as f64).collect();
    let (mn, mean, var, mx) = t.depth_stats();
    let emean = ld.iter().sum::<f64>() / ld.len() as f64;
    let evar = if ld.len() > 1 { ld.iter().map(|v| (v - emean).powi(2)).sum::<f64>() / (ld.len() as f64 - 1.0) } else { f64::NAN };
    let close = |a: f64, b: f64| (a.is_nan() && b.is_nan()) || (a - b).abs() < 1e-9;
    if !close(mn, ld.iter().cloned().fold(f64::INFINITY, f64::min)) || !close(mx, ld.iter().cloned().fold(f64::NEG_INFINITY, f64::max)) || !close(mean, emean) || !(close(var, evar) || (ld.len() == 1)) {
        rep.viol(idx, "metric", format!("depth_stats()=({mn},{mean},{var},{mx}) want min/mean/var/max of {ld:?} | {descr}"));
    }
    let idxs: Vec<usize> = m.keys().cloned().collect();
    let dec: Vec<usize> = m.keys().filter(|i| !leaves.contains(i)).cloned().collect();
    let checks: Vec<(&str, Vec<usize>, &Vec<usize>)> = vec![
        ("node_indices", t.node_indices().collect(), &idxs),
        ("nodes", t.nodes().map(|n| n.idx).collect(), &idxs),
        ("terminal_indices", t.terminal_indices().collect(), &leaves),
        ("terminals", t.terminals().map(|n| n.idx).collect(), &leaves),
        ("decision_indices", t.decision_indices().collect(), &dec),
        ("decisions", t.decisions().map(|n| n.idx).collect(), &dec),
    ];
    for (name, got, want) in checks {
        if &got != want {
            rep.viol(idx, "index-iter", format!("{name}: got {got:?} want {want:?} | {descr}"));
        }
    }
    let mut e1: Vec<(usize, usize, usize)> = t.edge_iter().map(|e| (e.source_idx, e.label, e.target_idx)).collect();
    let mut e2 = pre_edges(&m, root);
    e1.sort();
    e2.sort();
    if e1 != e2 {
        rep.viol(idx, "index-iter", format!("edge_iter: got {e1:?} want {e2:?} | {descr}"));
    }
    let full: Vec<(usize, usize, usize)> = t.dfs_iter().map(|d| d.extract()).collect();
    if full != all {
        rep.viol(idx, "dfs-order", format!("dfs_iter: got {full:?} want {all:?} | {descr}"));
    }
}

pub fn traversal(rep: &mut Report, tier: Tier) {
    let (n2, n3, reps) = if tier == Tier::Quick { (4, 2, 2) } else { (5, 3, 3) };
    rep.rule = "every tree shape (missing children allowed) built with scrambled arena indices x every start node x every skip_subtree position (single and repeated): DfsPre / DfsEdge / Bfs item streams incl. depth and remaining-sibling counters, size_hint bracket before every next(), index-order iterators, num_nodes, num_terminals, depth, depth_stats, path_to_node against a reference computed from the arena view; non-trivial: tree has >= 3 nodes".into();
    rep.bound = format!("K=2: <= {n2} inner nodes, K=3: <= {n3} inner nodes, {reps} index layouts each; exhaustive over shapes, start nodes and skip positions");
    rep.exhaustive = true;
    let mut idx = 0u64;
    for s in shapes(2, n2, true) {
        for r in 0..reps {
            idx += 1;
            if rep.skip(idx) {
                continue;
            }
            let mut rng = Rng::new(rep.seed ^ (idx * 7919 + r as u64));
            let t = build_plain::<2>(&mut rng, &s, r > 0);
            let descr = format!("K=2 {:?}", model(&t));
            if s.nodes() >= 3 {
                rep.nontrivial(&descr);
            }
            rep.sample(descr.clone());
            traversal_case::<2>(rep, idx, &t, &descr);
        }
    }
    for s in shapes(3, n3, true) {
        for r in 0..reps.min(2) {
            idx += 1;
            if rep.skip(idx) {
                continue;
            }
            let mut rng = Rng::new(rep.seed ^ (idx * 7919 + r as u64));
            let t = build_plain::<3>(&mut rng, &s, r > 0);
            let descr = format!("K=3 {:?}", model(&t));
            if s.nodes() >= 3 {
                rep.nontrivial(&descr);
            }
            traversal_case::<3>(rep, idx, &t, &descr);
        }
    }
}

// ------------------------------------------------------------------------------------------ C12

fn ops_case<const K: usize>(rep: &mut Report, idx: u64, len: usize) {
    let mut rng = Rng::new(rep.seed ^ (idx * 2654435761));
    let mut t = Tree::<u32, K>::new();
    t.add_root(0);
    let mut hist: Vec<String> = vec!["add_root".into()];
    rep.evaluations += 1;
    let mut had_err = false;
    let mut had_reuse = false;
    let mut ever: BTreeSet<usize> = BTreeSet::new();
    for step in 0..len {
        let before = model(&t);
        let root = Some(t.get_root_idx());
        ever.extend(before.keys());
        // candidate indices: live ones plus one stale / out of range
        let mut cands: Vec<usize> = before.keys().cloned().collect();
        cands.push(before.keys().max().unwrap() + 1 + rng.below(2));
        let node = *rng.pick(&cands);
        let label = rng.below(K);
        let val = 1000 + step as u32;
        let op = rng.below(7);
        let name;
        let mut expect_removed: Option<Vec<usize>> = None;
        let res: Result<Result<String, String>, String> = match op {
            0 | 1 => {
                name = format!("add_child_node({node},{label})");
                guarded(|| t.add_child_node(node, label, val).map(|i| format!("{i}")).map_err(|e| format!("{e:?}")))
            }
            2 => {
                name = format!("try_remove_child({node},{label})");
                if let Some(n) = before.get(&node) {
                    if let Some(c) = n.children[label] {
                        expect_removed = Some(subtree(&before, c));
                    }
                }
                guarded(|| t.try_remove_child(node, label).map(|v| format!("{v}")).map_err(|e| format!("{e:?}")))
            }
            3 => {
                name = format!("remove_all_descendants({node})");
                if before.contains_key(&node) {
                    expect_removed = Some(subtree(&before, node)[1..].to_vec());
                }
                guarded(|| t.remove_all_descendants(node).map(|v| format!("{v}")).map_err(|e| format!("{e:?}")))
            }
            4 => {
                name = format!("merge_child_with_parent({node},{label})");
                // the code asserts num_children == 1 (documented panic): only call it then
                if before.get(&node).map_or(false, |n| n.children.iter().flatten().count() == 1) {
                    expect_removed = Some(vec![node]);
                    guarded(|| t.merge_child_with_parent(node, label).map(|n| format!("{}", n.value)).map_err(|e| format!("{e:?}")))
                } else {
                    Ok(Ok("skipped".into()))
                }
            }
            5 => {
                name = format!("update_node({node})");
                guarded(|| t.update_node(node, val).map(|v| format!("{v}")).map_err(|e| format!("{e:?}")))
            }
            _ => {
                name = format!("remove_child({node},{label})");
                if before.get(&node).map_or(false, |n| n.children[label].is_some()) {
                    expect_removed = Some(subtree(&before, before[&node].children[label].unwrap()));
                    guarded(|| Ok(format!("{}", t.remove_child(node, label))))
                } else {
                    Ok(Ok("skipped".into()))
                }
            }
        };
        hist.push(name.clone());
        let after = model(&t);
        match res {
            Err(p) => {
                rep.viol(idx, "panic", format!("{name} panicked: {p} | history {hist:?} | before {before:?}"));
                return;
            }
            Ok(Err(_)) => {
                had_err = true;
                if after != before || Some(t.get_root_idx()) != root {
                    rep.viol(idx, "err-changed", format!("{name} returned Err but changed the tree | history {hist:?} | before {before:?} | after {after:?}"));
                    return;
                }
            }
            Ok(Ok(v)) => {
                if v != "skipped" {
                    // frame: surviving nodes keep index and value (except the updated one)
                    for (i, n) in &after {
                        if let Some(b) = before.get(i) {
                            if b.value != n.value && !(op == 5 && *i == node) {
                                rep.viol(idx, "frame", format!("{name}: node {i} changed its value | history {hist:?}"));
                            }
                        } else if op > 1 {
                            rep.viol(idx, "frame", format!("{name}: node {i} appeared | history {hist:?}"));
                        } else if ever.contains(i) {
                            had_reuse = true;
                        }
                    }
                    if op != 4 {
                        if let Some(exp) = &expect_removed {
                            let gone: BTreeSet<usize> = before.keys().filter(|i| !after.contains_key(i)).cloned().collect();
                            let want: BTreeSet<usize> = exp.iter().cloned().collect();
                            if gone != want {
                                rep.viol(idx, "removed-set", format!("{name}: removed {gone:?} want {want:?} | history {hist:?} | before {before:?}"));
                            }
                        }
                    }
                }
            }
        }
        if let Err(e) = wf(&after, Some(t.get_root_idx())) {
            rep.viol(idx, "wf", format!("after {name}: {e} | history {hist:?} | before {before:?} | after {after:?}"));
            return;
        }
        if t.len() != subtree(&after, t.get_root_idx()).len() {
            rep.viol(idx, "wf", format!("after {name}: len()={} but {} reachable | history {hist:?}", t.len(), subtree(&after, t.get_root_idx()).len()));
            return;
        }
    }
    if had_err && had_reuse {
        rep.nontrivial(&format!("{hist:?}"));
    }
    if idx < 4 {
        rep.sample(format!("{hist:?}"));
    }
}

pub fn tree_ops(rep: &mut Report, tier: Tier) {
    let (cases, len) = if tier == Tier::Quick { (20000, 12) } else { (400000, 16) };
    rep.rule = "seeded operation sequences over {add_child_node, try_remove_child, remove_child, remove_all_descendants, merge_child_with_parent, update_node} with live, stale and out-of-range indices, K in {2,3}; after every operation: executable wf (mirrored links, listed exactly once, leaf flag, single root, len()==reachable), Err => arena view unchanged, survivors keep index and value, removed set == subtree; non-trivial: sequence contains an Err and an index reuse".into();
    rep.bound = format!("{cases} sequences of length {len} for each K in {{2,3}}");
    for idx in 1..=cases as u64 {
        if rep.skip(idx) {
            continue;
        }
        if idx % 2 == 0 {
            ops_case::<2>(rep, idx, len);
        } else {
            ops_case::<3>(rep, idx, len);
        }
    }
}
