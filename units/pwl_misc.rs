// unit pwl_misc — C04: the small constructors / node editing helpers of AffTree (src/pwl/afftree.rs) keep the tree well-formed
use vstd::prelude::*;
use std::marker::PhantomData;
use std::mem;
use std::ops::{Add, Sub, Mul, Div, Neg};
verus! {
global size_of usize == 8;

//@include prelude/inc_pwl_core.rs
//@item src/tree/graph.rs | struct EdgeReference
//@include prelude/inc_tree_edit.rs

impl<const K: usize> AffTree<K> {
//@assumed units/pwl_compose_pruned.rs | update_node

//@fn src/pwl/afftree.rs | impl<const K: usize> AffTree<K> | with_capacity
//@bodysub polytope_cache: RefCell::new(Vec::new()), =>
//@spec
    requires K >= 2, K < usize::MAX
    ensures r.tree.wf(), r.tree.root == Some(0usize), r.a().dom() =~= set![0usize], r.in_dim == dim, aff_shape_ok(r.a(), dim),
        r.a()[0].isleaf, r.a()[0].value.aff.mat.nrows() == dim,
        // the identity function
        forall|h: Map<usize, nat>, x: V| x.len() == dim ==> #[trigger] tree_fn(r.a(), h, 0, x) == Some(x),
//@end

//@fn src/pwl/afftree.rs | impl<const K: usize> AffTree<K> | new
//@spec
    requires K >= 2, K < usize::MAX
    ensures r.tree.wf(), r.tree.root == Some(0usize), r.a().dom() =~= set![0usize], r.in_dim == dim, aff_shape_ok(r.a(), dim),
        forall|h: Map<usize, nat>, x: V| x.len() == dim ==> #[trigger] tree_fn(r.a(), h, 0, x) == Some(x),
//@end

//@fn src/pwl/afftree.rs | impl<const K: usize> AffTree<K> | len
//@spec
    ensures r == self.a().dom().len()
//@end
//@fn src/pwl/afftree.rs | impl<const K: usize> AffTree<K> | is_empty
//@spec
    ensures r == (self.a().dom().len() == 0)
//@end

//@fn src/pwl/afftree.rs | impl<const K: usize> AffTree<K> | add_terminal
//@spec
    requires old(self).tree.wf(), label < K
    ensures
        add_child_post(old(self).a(), final(self).a(), node, label, r),
        r matches Ok(c) ==> final(self).a()[c].value.aff == aff && final(self).a()[node].value == old(self).a()[node].value,
        r is Err <==> !old(self).a().dom().contains(node) || old(self).a()[node].children[label as int] is Some,
        final(self).tree.root == old(self).tree.root, final(self).in_dim == old(self).in_dim, final(self).tree.wf(),
//@end

//@fn src/pwl/afftree.rs | impl<const K: usize> AffTree<K> | add_decision
//@spec
    requires old(self).tree.wf(), label < K,
        aff.mat.nrows() <= K,      // asserted by the code (panics otherwise)
    ensures
        add_child_post(old(self).a(), final(self).a(), node, label, r),
        r matches Ok(c) ==> final(self).a()[c].value.aff == aff && final(self).a()[node].value == old(self).a()[node].value,
        r is Err <==> !old(self).a().dom().contains(node) || old(self).a()[node].children[label as int] is Some,
        final(self).tree.root == old(self).tree.root, final(self).in_dim == old(self).in_dim, final(self).tree.wf(),
//@hint start
        broadcast use axiom_array2_shape;
//@end

//@fn src/pwl/afftree.rs | impl<const K: usize> AffTree<K> | replace_node
//@spec
    requires old(self).tree.wf(), old(self).a().dom().len() <= i32::MAX
    ensures
        final(self).tree.wf(), final(self).tree.root == old(self).tree.root, final(self).in_dim == old(self).in_dim,
        r is Err <==> !old(self).a().dom().contains(node_idx),
        r is Err ==> final(self).a() == old(self).a(),
        // the node (with everything below it) is replaced by a terminal holding `aff`, at the same place in the tree
        r matches Ok(n) ==> final(self).a().dom().contains(n) && final(self).a()[n].value.aff == aff && final(self).a()[n].parent == old(self).a()[node_idx].parent
            && (old(self).tree.root == Some(node_idx) ==> n == node_idx && same_shape(old(self).a(), final(self).a()))
            && (old(self).tree.root != Some(node_idx) ==> final(self).a()[n].isleaf && no_kids(final(self).a()[n])),
//@hint start
        proof {
            if self.a().dom().contains(node_idx) && self.a()[node_idx].parent is None { assert(self.tree.root == Some(node_idx)); }
            if self.tree.root == Some(node_idx) { assert(self.a().dom().contains(node_idx)); }
        }
//@hint after self.tree.remove_child(parent_idx, label);
            proof {
                let a0 = old(self).a();
                let d = choose|d: Map<usize, nat>| ranked(a0, d);
                assert(a0[node_idx].parent == Some(parent_idx));
                assert(d[parent_idx] < d[node_idx]);
                assert(!desc(a0, node_idx, parent_idx)) by {
                    if desc(a0, node_idx, parent_idx) {
                        let f = choose|f: nat| is_desc(a0, node_idx, parent_idx, f);
                        lemma_desc_rank(a0, d, node_idx, parent_idx, f);
                    }
                }
                assert(self.a().dom().contains(parent_idx));
                assert(self.a()[parent_idx].children[label as int] is None) by { assert(self.a()[parent_idx].children@[label as int] is None); }
            }
//@end
}

} // verus!
fn main() {}
