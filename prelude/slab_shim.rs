// ---- prelude/slab_shim.rs : assumed contracts for slab::Slab (dependency, not verified) ----
// View: Map<usize, T> with finite domain.  `insert` returns *some* key not in the domain.

pub assume_specification<T> [core::mem::replace] (dest: &mut T, src: T) -> (r: T)
    ensures r == *old(dest), *final(dest) == src;

#[verifier::external_body]
#[verifier::accept_recursive_types(T)]
pub struct Slab<T> { v: Vec<T> }

impl<T> View for Slab<T> { type V = Map<usize, T>; uninterp spec fn view(&self) -> Map<usize, T>; }

impl<T> Slab<T> {
    // a slab that was never used hands out key 0 first (all constructors of the crate rely on the root having index 0)
    pub uninterp spec fn fresh(&self) -> bool;

    #[verifier::external_body]
    pub fn with_capacity(capacity: usize) -> (r: Slab<T>)
        ensures r@ == Map::<usize, T>::empty(), r.fresh()
    { unimplemented!() }

    #[verifier::external_body]
    pub fn len(&self) -> (r: usize)
        ensures r == self@.dom().len()
    { unimplemented!() }

    #[verifier::external_body]
    pub fn is_empty(&self) -> (r: bool)
        ensures r == (self@.dom().len() == 0)
    { unimplemented!() }

    #[verifier::external_body]
    pub fn contains(&self, key: usize) -> (r: bool)
        ensures r == self@.dom().contains(key)
    { unimplemented!() }

    #[verifier::external_body]
    pub fn get(&self, key: usize) -> (r: Option<&T>)
        ensures r == (if self@.dom().contains(key) { Some(&self@[key]) } else { None })
    { unimplemented!() }

    #[verifier::external_body]
    pub fn get_mut(&mut self, key: usize) -> (r: Option<&mut T>)
        ensures
            !old(self)@.dom().contains(key) ==> r.is_none() && final(self)@ == old(self)@,
            old(self)@.dom().contains(key) ==> r.is_some() && *r.unwrap() == old(self)@[key]
                && final(self)@ == old(self)@.insert(key, *final(r.unwrap())),
    { unimplemented!() }

    #[verifier::external_body]
    pub fn insert(&mut self, val: T) -> (key: usize)
        ensures !old(self)@.dom().contains(key), final(self)@ == old(self)@.insert(key, val), old(self).fresh() ==> key == 0
    { unimplemented!() }

    #[verifier::external_body]
    pub fn remove(&mut self, key: usize) -> (r: T)
        requires old(self)@.dom().contains(key)
        ensures r == old(self)@[key], final(self)@ == old(self)@.remove(key)
    { unimplemented!() }

    #[verifier::external_body]
    pub fn try_remove(&mut self, key: usize) -> (r: Option<T>)
        ensures
            old(self)@.dom().contains(key) ==> r == Some(old(self)@[key]) && final(self)@ == old(self)@.remove(key),
            !old(self)@.dom().contains(key) ==> r.is_none() && final(self)@ == old(self)@,
    { unimplemented!() }
}

impl<T> vstd::std_specs::core::IndexSpecImpl<usize> for Slab<T> {
    open spec fn index_req(&self, key: &usize) -> bool { self@.dom().contains(*key) }
}
impl<T> core::ops::Index<usize> for Slab<T> {
    type Output = T;
    #[verifier::external_body]
    fn index(&self, key: usize) -> (r: &T)
        ensures *r == self@[key]
    { unimplemented!() }
}
impl<T> core::ops::IndexMut<usize> for Slab<T> {
    #[verifier::external_body]
    fn index_mut(&mut self, key: usize) -> (r: &mut T)
        ensures *r == old(self)@[key], final(self)@ == old(self)@.insert(key, *final(r)),
    { unimplemented!() }
}
// ---- end slab_shim ----
