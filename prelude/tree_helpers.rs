// ---- prelude/tree_helpers.rs : verified helpers the rewrite rules I7 refer to ----
// child indices in ascending label order from slot lo on
pub open spec fn kid_idx<const K: usize>(ch: [Option<usize>; K], lo: int) -> Seq<usize>
    decreases K - lo
{
    if lo >= K || lo < 0 { Seq::empty() }
    else if ch[lo].is_some() { seq![ch[lo].unwrap()] + kid_idx(ch, lo + 1) }
    else { kid_idx(ch, lo + 1) }
}

pub proof fn lemma_kid_idx_members<const K: usize>(ch: [Option<usize>; K], lo: int)
    requires 0 <= lo <= K
    ensures
        forall|j: int| 0 <= j < kid_idx(ch, lo).len() ==> exists|l: int| lo <= l < K && #[trigger] ch[l] == Some(#[trigger] kid_idx(ch, lo)[j]),
        forall|l: int| lo <= l < K && (#[trigger] ch[l]).is_some() ==> kid_idx(ch, lo).contains(ch[l].unwrap()),
        kid_idx(ch, lo).len() <= K - lo,
    decreases K - lo
{
    if lo < K {
        lemma_kid_idx_members(ch, lo + 1);
        let rest = kid_idx(ch, lo + 1);
        let all = kid_idx(ch, lo);
        if ch[lo].is_some() {
            assert(all == seq![ch[lo].unwrap()] + rest);
            assert forall|j: int| 0 <= j < all.len() implies exists|l: int| lo <= l < K && #[trigger] ch[l] == Some(#[trigger] all[j]) by {
                if j == 0 { assert(ch[lo] == Some(all[0])); }
                else {
                    assert(all[j] == rest[j - 1]);
                    let l = choose|l: int| lo + 1 <= l < K && #[trigger] ch[l] == Some(rest[j - 1]);
                    assert(ch[l] == Some(all[j]));
                }
            }
            assert forall|l: int| lo <= l < K && (#[trigger] ch[l]).is_some() implies all.contains(ch[l].unwrap()) by {
                if l == lo { assert(all[0] == ch[l].unwrap()); }
                else {
                    let j = choose|j: int| 0 <= j < rest.len() && rest[j] == ch[l].unwrap();
                    assert(all[j + 1] == ch[l].unwrap());
                }
            }
        } else {
            assert(all == rest);
            assert forall|l: int| lo <= l < K && (#[trigger] ch[l]).is_some() implies all.contains(ch[l].unwrap()) by { assert(l != lo); }
        }
    }
}

// no duplicates when the slots hold pairwise different indices
pub proof fn lemma_kid_idx_distinct<const K: usize>(ch: [Option<usize>; K], lo: int)
    requires 0 <= lo <= K,
        forall|l1: int, l2: int| 0 <= l1 < K && 0 <= l2 < K && l1 != l2 && (#[trigger] ch[l1]).is_some() ==> ch[l1] != #[trigger] ch[l2]
    ensures forall|j1: int, j2: int| 0 <= j1 < j2 < kid_idx(ch, lo).len() ==> kid_idx(ch, lo)[j1] != kid_idx(ch, lo)[j2]
    decreases K - lo
{
    if lo < K {
        lemma_kid_idx_distinct(ch, lo + 1);
        lemma_kid_idx_members(ch, lo + 1);
        let rest = kid_idx(ch, lo + 1);
        let all = kid_idx(ch, lo);
        if ch[lo].is_some() {
            assert(all == seq![ch[lo].unwrap()] + rest);
            assert forall|j1: int, j2: int| 0 <= j1 < j2 < all.len() implies all[j1] != all[j2] by {
                assert(all[j2] == rest[j2 - 1]);
                if j1 == 0 {
                    let l = choose|l: int| lo + 1 <= l < K && #[trigger] ch[l] == Some(rest[j2 - 1]);
                    assert(ch[lo] != ch[l]);
                } else { assert(all[j1] == rest[j1 - 1]); }
            }
        }
    }
}

// rule I7: `T.children(I).map(|e| e.target_idx).collect_vec()`
pub fn children_idx_vec<N, const K: usize>(t: &Tree<N, K>, idx: usize) -> (r: Vec<usize>)
    requires t.arena@.dom().contains(idx)
    ensures r@ == kid_idx(t.arena@[idx].children, 0)
{
    let node = t.arena.get(idx).unwrap();
    let mut v: Vec<usize> = Vec::new();
    let mut i: usize = 0;
    while i < K
        invariant 0 <= i <= K, t.arena@.dom().contains(idx), *node == t.arena@[idx], v@ + kid_idx(node.children, i as int) =~= kid_idx(node.children, 0)
        decreases K - i
    {
        if let Some(c) = node.children[i] {
            assert(kid_idx(node.children, i as int) == seq![c] + kid_idx(node.children, i as int + 1));
            v.push(c);
            assert(v@ + kid_idx(node.children, i as int + 1) =~= (v@.drop_last() + (seq![c] + kid_idx(node.children, i as int + 1))));
        }
        i += 1;
    }
    assert(kid_idx(node.children, K as int) =~= Seq::<usize>::empty());
    v
}

// rule I7 (loop form): `for ed in T.children(I)[.rev()]` iterates the existing children as edges in ascending label order
pub fn children_vec<N, const K: usize>(t: &Tree<N, K>, idx: usize) -> (r: Vec<Edge>)
    requires t.arena@.dom().contains(idx)
    ensures r@.len() == kid_seq(t.arena@[idx].children, 0).len(),
        forall|j: int| 0 <= j < r@.len() ==> (#[trigger] r@[j]).source_idx == idx
            && r@[j].label == kid_seq(t.arena@[idx].children, 0)[j].0 && r@[j].target_idx == kid_seq(t.arena@[idx].children, 0)[j].1
{
    let node = t.arena.get(idx).unwrap();
    let mut v: Vec<Edge> = Vec::new();
    let mut i: usize = 0;
    let ghost full = kid_seq(node.children, 0);
    while i < K
        invariant 0 <= i <= K, t.arena@.dom().contains(idx), *node == t.arena@[idx], full == kid_seq(node.children, 0),
            v@.len() + kid_seq(node.children, i as int).len() == full.len(),
            forall|j: int| 0 <= j < v@.len() ==> (#[trigger] v@[j]).source_idx == idx && v@[j].label == full[j].0 && v@[j].target_idx == full[j].1,
            forall|j: int| 0 <= j < kid_seq(node.children, i as int).len() ==> #[trigger] kid_seq(node.children, i as int)[j] == full[v@.len() + j],
        decreases K - i
    {
        if let Some(c) = node.children[i] {
            let ghost ks = kid_seq(node.children, i as int);
            let ghost kn = kid_seq(node.children, i as int + 1);
            assert(ks == seq![(i, c)] + kn);
            assert(ks[0] == (i, c));
            assert forall|j: int| 0 <= j < kn.len() implies #[trigger] kn[j] == full[v@.len() + 1 + j] by { assert(kn[j] == ks[j + 1]); }
            v.push(Edge { source_idx: idx, label: i, target_idx: c });
        }
        i += 1;
    }
    v
}

// rule I8: `T.terminal_indices().collect_vec()` — indices of the nodes flagged as leaf, in arena order.
// TRUSTED (slab's iteration order and iterator adapters are outside Verus); validated by bc traversal (index-order iterators).
#[verifier::external_body]
pub fn terminal_indices_vec<N, const K: usize>(t: &Tree<N, K>) -> (r: Vec<usize>)
    ensures
        forall|i: usize| r@.contains(i) <==> t.arena@.dom().contains(i) && t.arena@[i].isleaf,
        forall|j1: int, j2: int| 0 <= j1 < j2 < r@.len() ==> r@[j1] < r@[j2],
{ unimplemented!() }
// ---- end tree_helpers ----
