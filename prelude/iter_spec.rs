// ---- prelude/iter_spec.rs : specification vocabulary for the traversals (C13) ----

// items for the children in slots >= lo of a node whose children sit at depth `depth`;
// n_remaining = number of later siblings still to be visited
pub open spec fn kid_items<const K: usize>(ch: [Option<usize>; K], lo: int, depth: usize) -> Seq<DfsNodeData>
    decreases K - lo
{
    if lo >= K || lo < 0 { Seq::empty() }
    else if ch[lo].is_some() {
        seq![DfsNodeData { depth, index: ch[lo].unwrap(), n_remaining: count_some_from(ch, lo + 1) as usize }] + kid_items(ch, lo + 1, depth)
    } else { kid_items(ch, lo + 1, depth) }
}

// pre-order of the subtree below (and including) the item, children by ascending label
pub open spec fn pre_items<N, const K: usize>(a: Arena<N, K>, h: Map<usize, nat>, it: DfsNodeData) -> Seq<DfsNodeData>
    decreases h[it.index] + 1, 0nat
{
    seq![it] + concat_pre(a, h, kid_items(a[it.index].children, 0, (it.depth + 1) as usize), h[it.index])
}

pub open spec fn concat_pre<N, const K: usize>(a: Arena<N, K>, h: Map<usize, nat>, xs: Seq<DfsNodeData>, bound: nat) -> Seq<DfsNodeData>
    decreases bound, xs.len() + 1
{
    if xs.len() == 0 { Seq::empty() }
    else {
        (if h[xs[0].index] < bound { pre_items(a, h, xs[0]) } else { Seq::empty() })
        + concat_pre(a, h, xs.drop_first(), bound)
    }
}

// what a DfsPre with this stack (top = last) will still produce
pub open spec fn rem<N, const K: usize>(a: Arena<N, K>, h: Map<usize, nat>, s: Seq<DfsNodeData>) -> Seq<DfsNodeData>
    decreases s.len()
{
    if s.len() == 0 { Seq::empty() } else { pre_items(a, h, s.last()) + rem(a, h, s.drop_last()) }
}

pub open spec fn all_below(h: Map<usize, nat>, xs: Seq<DfsNodeData>, bound: nat) -> bool {
    forall|j: int| 0 <= j < xs.len() ==> h[(#[trigger] xs[j]).index] < bound
}

// entries are live nodes and their depth counters cannot overflow
pub open spec fn stack_ok<N, const K: usize>(a: Arena<N, K>, s: Seq<DfsNodeData>) -> bool {
    forall|j: int| 0 <= j < s.len() ==> a.dom().contains((#[trigger] s[j]).index) && s[j].depth < usize::MAX
}

// inductive invariant behind stack_ok: depth + height stays below usize::MAX
pub open spec fn dfs_inv<N, const K: usize>(a: Arena<N, K>, h: Map<usize, nat>, s: Seq<DfsNodeData>) -> bool {
    &&& ranked_down(a, h) && kids_ok(a)
    &&& forall|j: int| 0 <= j < s.len() ==> a.dom().contains((#[trigger] s[j]).index) && s[j].depth + h[s[j].index] < usize::MAX
}

pub proof fn lemma_kid_items_len<const K: usize>(ch: [Option<usize>; K], lo: int, depth: usize)
    requires 0 <= lo <= K
    ensures kid_items(ch, lo, depth).len() == count_some_from(ch, lo), count_some_from(ch, lo) <= K - lo
    decreases K - lo
{
    if lo < K { lemma_kid_items_len(ch, lo + 1, depth); }
}

pub proof fn lemma_kid_items_below<N, const K: usize>(a: Arena<N, K>, h: Map<usize, nat>, i: usize, lo: int, depth: usize)
    requires ranked_down(a, h), kids_ok(a), a.dom().contains(i), 0 <= lo
    ensures all_below(h, kid_items(a[i].children, lo, depth), h[i]),
        forall|j: int| 0 <= j < kid_items(a[i].children, lo, depth).len() ==> a.dom().contains((#[trigger] kid_items(a[i].children, lo, depth)[j]).index)
            && kid_items(a[i].children, lo, depth)[j].depth == depth
    decreases K - lo
{
    if lo < K {
        lemma_kid_items_below(a, h, i, lo + 1, depth);
        let ch = a[i].children;
        if ch[lo].is_some() {
            let rest = kid_items(ch, lo + 1, depth);
            let all = kid_items(ch, lo, depth);
            assert(all.len() == rest.len() + 1);
            assert forall|j: int| 0 <= j < all.len() implies h[(#[trigger] all[j]).index] < h[i] && a.dom().contains(all[j].index) && all[j].depth == depth by {
                if j == 0 { assert(all[0].index == ch[lo].unwrap()); } else { assert(all[j] == rest[j - 1]); }
            }
        }
    }
}

// rem(rest ++ reverse(xs)) == concat_pre(xs) ++ rem(rest)
pub proof fn lemma_rem_push_rev<N, const K: usize>(a: Arena<N, K>, h: Map<usize, nat>, rest: Seq<DfsNodeData>, xs: Seq<DfsNodeData>, bound: nat)
    requires all_below(h, xs, bound)
    ensures rem(a, h, rest + xs.reverse()) == concat_pre(a, h, xs, bound) + rem(a, h, rest)
    decreases xs.len()
{
    if xs.len() == 0 {
        assert(rest + xs.reverse() =~= rest);
    } else {
        let s = rest + xs.reverse();
        let tail = xs.drop_first();
        assert(s.last() == xs[0]);
        assert(s.drop_last() =~= rest + tail.reverse());
        assert(all_below(h, tail, bound)) by {
            assert forall|j: int| 0 <= j < tail.len() implies h[(#[trigger] tail[j]).index] < bound by { assert(tail[j] == xs[j + 1]); }
        }
        lemma_rem_push_rev(a, h, rest, tail, bound);
        assert(h[xs[0].index] < bound);
    }
}

// one loop step of the child-pushing loop (slots are visited from K-1 down to 0)
pub proof fn lemma_kid_push_step<const K: usize>(ch: [Option<usize>; K], i: int, dp: usize, rest: Seq<DfsNodeData>)
    requires 0 <= i < K
    ensures
        ch[i].is_none() ==> kid_items(ch, i, dp) == kid_items(ch, i + 1, dp) && count_some_from(ch, i) == count_some_from(ch, i + 1),
        ch[i].is_some() ==> count_some_from(ch, i) == count_some_from(ch, i + 1) + 1
            && (rest + kid_items(ch, i + 1, dp).reverse()).push(DfsNodeData { depth: dp, index: ch[i].unwrap(), n_remaining: count_some_from(ch, i + 1) as usize })
                == rest + kid_items(ch, i, dp).reverse(),
{
    if ch[i].is_some() {
        let item = DfsNodeData { depth: dp, index: ch[i].unwrap(), n_remaining: count_some_from(ch, i + 1) as usize };
        let kj = kid_items(ch, i + 1, dp);
        let ki = kid_items(ch, i, dp);
        assert(ki == seq![item] + kj);
        assert(ki.reverse() =~= kj.reverse().push(item));
        assert((rest + kj.reverse()).push(item) =~= rest + kj.reverse().push(item));
    }
}

pub proof fn lemma_rem_len_ge<N, const K: usize>(a: Arena<N, K>, h: Map<usize, nat>, s: Seq<DfsNodeData>, k: int)
    requires 0 <= k <= s.len()
    ensures rem(a, h, s).len() >= rem(a, h, s.take(s.len() - k)).len() + k
    decreases k
{
    if k == 0 { assert(s.take(s.len() as int) =~= s); }
    else {
        lemma_rem_len_ge(a, h, s.drop_last(), k - 1);
        assert(s.drop_last().take(s.len() - 1 - (k - 1)) =~= s.take(s.len() - k));
    }
}

// ---- the step relations (written from the documented behaviour, not from the code)

// next(): pop the top item; push its children so that the lowest label is on top, one level deeper,
// each with the number of siblings that will be visited after it; remember how many were pushed
pub open spec fn dfs_step<N, const K: usize>(a: Arena<N, K>, s0: Seq<DfsNodeData>, s1: Seq<DfsNodeData>, last_push1: usize, r: Option<DfsNodeData>) -> bool {
    match r {
        None => s0.len() == 0 && s1 == s0,
        Some(data) => s0.len() > 0 && data == s0.last()
            && s1 == s0.drop_last() + kid_items(a[data.index].children, 0, (data.depth + 1) as usize).reverse()
            && last_push1 == count_some_from(a[data.index].children, 0),
    }
}

// consequences of a step for the remaining sequence and the invariant
pub proof fn lemma_dfs_step<N, const K: usize>(a: Arena<N, K>, h: Map<usize, nat>, s0: Seq<DfsNodeData>, s1: Seq<DfsNodeData>, lp: usize, r: Option<DfsNodeData>)
    requires dfs_inv(a, h, s0), dfs_step(a, s0, s1, lp, r)
    ensures
        dfs_inv(a, h, s1),
        r.is_none() ==> rem(a, h, s0).len() == 0,
        r.is_some() ==> rem(a, h, s0) == seq![r.unwrap()] + rem(a, h, s1),
        // the children (and with them the whole subtree) of the returned item are the top `lp` entries
        r.is_some() ==> lp <= s1.len() && s1.take(s1.len() - lp) == s0.drop_last()
            && rem(a, h, s0) == pre_items(a, h, r.unwrap()) + rem(a, h, s0.drop_last()),
{
    if r.is_some() {
        let data = r.unwrap();
        let dp = (data.depth + 1) as usize;
        let kids = kid_items(a[data.index].children, 0, dp);
        let rest = s0.drop_last();
        assert(a.dom().contains(data.index) && data.depth + h[data.index] < usize::MAX);
        lemma_kid_items_below(a, h, data.index, 0, dp);
        lemma_kid_items_len(a[data.index].children, 0, dp);
        lemma_rem_push_rev(a, h, rest, kids, h[data.index]);
        assert forall|j: int| 0 <= j < s1.len() implies a.dom().contains((#[trigger] s1[j]).index) && s1[j].depth + h[s1[j].index] < usize::MAX by {
            if j < rest.len() { assert(s1[j] == s0[j]); }
            else {
                let k = kids.len() - 1 - (j - rest.len());
                assert(s1[j] == kids.reverse()[j - rest.len()]);
                assert(kids.reverse()[j - rest.len()] == kids[k]);
            }
        }
        assert(s1.take(s1.len() - lp) =~= rest);
    }
}

// skip_subtree(): drop the entries pushed by the last next(); a second call does nothing
pub open spec fn skip_step(s0: Seq<DfsNodeData>, lp0: usize, s1: Seq<DfsNodeData>, lp1: usize) -> bool {
    lp1 == 0 && s1 == s0.take(if lp0 <= s0.len() { s0.len() - lp0 } else { 0 })
}

// "skip_subtree omits exactly the descendants of the last returned item":
// next() returned `data`, then skip_subtree(): what remains is what remained before minus the whole pre-order of data
pub proof fn lemma_next_then_skip<N, const K: usize>(a: Arena<N, K>, h: Map<usize, nat>, s0: Seq<DfsNodeData>, s1: Seq<DfsNodeData>, lp1: usize, data: DfsNodeData,
    s2: Seq<DfsNodeData>, lp2: usize, s3: Seq<DfsNodeData>, lp3: usize)
    requires dfs_inv(a, h, s0), dfs_step(a, s0, s1, lp1, Some(data)), skip_step(s1, lp1, s2, lp2), skip_step(s2, lp2, s3, lp3)
    ensures rem(a, h, s0) == pre_items(a, h, data) + rem(a, h, s2), s3 == s2, dfs_inv(a, h, s2)
{
    lemma_dfs_step(a, h, s0, s1, lp1, Some(data));
    assert(s2 == s0.drop_last());
    assert(s3 =~= s2);
    assert forall|j: int| 0 <= j < s2.len() implies a.dom().contains((#[trigger] s2[j]).index) && s2[j].depth + h[s2[j].index] < usize::MAX by { assert(s2[j] == s0[j]); }
}

// size_hint brackets the number of items still to come
pub open spec fn size_ok<N, const K: usize>(a: Arena<N, K>, h: Map<usize, nat>, s: Seq<DfsNodeData>, lb: usize, ub: usize) -> bool {
    lb <= rem(a, h, s).len() <= ub
}

// ------------------------------------------------------------------ edges (DfsEdge)
pub type EItem = (usize, usize, usize, usize);   // (depth, source, label, target)

pub open spec fn kid_edges<const K: usize>(ch: [Option<usize>; K], lo: int, depth: usize, src: usize) -> Seq<EItem>
    decreases K - lo
{
    if lo >= K || lo < 0 { Seq::empty() }
    else if ch[lo].is_some() { seq![(depth, src, lo as usize, ch[lo].unwrap())] + kid_edges(ch, lo + 1, depth, src) }
    else { kid_edges(ch, lo + 1, depth, src) }
}

// edges of the subtree hanging below edge e, in pre-order, starting with e itself
pub open spec fn pre_edges<N, const K: usize>(a: Arena<N, K>, h: Map<usize, nat>, e: EItem) -> Seq<EItem>
    decreases h[e.3] + 1, 0nat
{
    seq![e] + concat_edges(a, h, kid_edges(a[e.3].children, 0, (e.0 + 1) as usize, e.3), h[e.3])
}
pub open spec fn concat_edges<N, const K: usize>(a: Arena<N, K>, h: Map<usize, nat>, xs: Seq<EItem>, bound: nat) -> Seq<EItem>
    decreases bound, xs.len() + 1
{
    if xs.len() == 0 { Seq::empty() }
    else { (if h[xs[0].3] < bound { pre_edges(a, h, xs[0]) } else { Seq::empty() }) + concat_edges(a, h, xs.drop_first(), bound) }
}
pub open spec fn rem_e<N, const K: usize>(a: Arena<N, K>, h: Map<usize, nat>, s: Seq<EItem>) -> Seq<EItem>
    decreases s.len()
{
    if s.len() == 0 { Seq::empty() } else { pre_edges(a, h, s.last()) + rem_e(a, h, s.drop_last()) }
}
pub open spec fn edges_below(h: Map<usize, nat>, xs: Seq<EItem>, bound: nat) -> bool {
    forall|j: int| 0 <= j < xs.len() ==> h[(#[trigger] xs[j]).3] < bound
}
pub open spec fn estack_ok<N, const K: usize>(a: Arena<N, K>, s: Seq<EItem>) -> bool {
    forall|j: int| 0 <= j < s.len() ==> a.dom().contains((#[trigger] s[j]).3) && s[j].0 < usize::MAX
}
pub open spec fn edge_inv<N, const K: usize>(a: Arena<N, K>, h: Map<usize, nat>, s: Seq<EItem>) -> bool {
    &&& ranked_down(a, h) && kids_ok(a)
    &&& forall|j: int| 0 <= j < s.len() ==> a.dom().contains((#[trigger] s[j]).3) && s[j].0 + h[s[j].3] < usize::MAX
}

pub proof fn lemma_kid_edges_len<const K: usize>(ch: [Option<usize>; K], lo: int, depth: usize, src: usize)
    requires 0 <= lo <= K
    ensures kid_edges(ch, lo, depth, src).len() == count_some_from(ch, lo), count_some_from(ch, lo) <= K - lo
    decreases K - lo
{
    if lo < K { lemma_kid_edges_len(ch, lo + 1, depth, src); }
}

pub proof fn lemma_kid_edges_below<N, const K: usize>(a: Arena<N, K>, h: Map<usize, nat>, i: usize, lo: int, depth: usize)
    requires ranked_down(a, h), kids_ok(a), a.dom().contains(i), 0 <= lo
    ensures edges_below(h, kid_edges(a[i].children, lo, depth, i), h[i]),
        forall|j: int| 0 <= j < kid_edges(a[i].children, lo, depth, i).len() ==> a.dom().contains((#[trigger] kid_edges(a[i].children, lo, depth, i)[j]).3)
            && kid_edges(a[i].children, lo, depth, i)[j].0 == depth
    decreases K - lo
{
    if lo < K {
        lemma_kid_edges_below(a, h, i, lo + 1, depth);
        let ch = a[i].children;
        if ch[lo].is_some() {
            let rest = kid_edges(ch, lo + 1, depth, i);
            let all = kid_edges(ch, lo, depth, i);
            assert(all.len() == rest.len() + 1);
            assert forall|j: int| 0 <= j < all.len() implies h[(#[trigger] all[j]).3] < h[i] && a.dom().contains(all[j].3) && all[j].0 == depth by {
                if j == 0 { assert(all[0].3 == ch[lo].unwrap()); } else { assert(all[j] == rest[j - 1]); }
            }
        }
    }
}

pub proof fn lemma_rem_e_push_rev<N, const K: usize>(a: Arena<N, K>, h: Map<usize, nat>, rest: Seq<EItem>, xs: Seq<EItem>, bound: nat)
    requires edges_below(h, xs, bound)
    ensures rem_e(a, h, rest + xs.reverse()) == concat_edges(a, h, xs, bound) + rem_e(a, h, rest)
    decreases xs.len()
{
    if xs.len() == 0 {
        assert(rest + xs.reverse() =~= rest);
    } else {
        let s = rest + xs.reverse();
        let tail = xs.drop_first();
        assert(s.last() == xs[0]);
        assert(s.drop_last() =~= rest + tail.reverse());
        assert(edges_below(h, tail, bound)) by {
            assert forall|j: int| 0 <= j < tail.len() implies h[(#[trigger] tail[j]).3] < bound by { assert(tail[j] == xs[j + 1]); }
        }
        lemma_rem_e_push_rev(a, h, rest, tail, bound);
        assert(h[xs[0].3] < bound);
    }
}

pub proof fn lemma_edge_push_step<const K: usize>(ch: [Option<usize>; K], i: int, dp: usize, src: usize, rest: Seq<EItem>)
    requires 0 <= i < K
    ensures
        ch[i].is_none() ==> kid_edges(ch, i, dp, src) == kid_edges(ch, i + 1, dp, src) && count_some_from(ch, i) == count_some_from(ch, i + 1),
        ch[i].is_some() ==> count_some_from(ch, i) == count_some_from(ch, i + 1) + 1
            && (rest + kid_edges(ch, i + 1, dp, src).reverse()).push((dp, src, i as usize, ch[i].unwrap())) == rest + kid_edges(ch, i, dp, src).reverse(),
{
    if ch[i].is_some() {
        let item = (dp, src, i as usize, ch[i].unwrap());
        let kj = kid_edges(ch, i + 1, dp, src);
        let ki = kid_edges(ch, i, dp, src);
        assert(ki == seq![item] + kj);
        assert(ki.reverse() =~= kj.reverse().push(item));
        assert((rest + kj.reverse()).push(item) =~= rest + kj.reverse().push(item));
    }
}

pub proof fn lemma_rem_e_len_ge<N, const K: usize>(a: Arena<N, K>, h: Map<usize, nat>, s: Seq<EItem>, k: int)
    requires 0 <= k <= s.len()
    ensures rem_e(a, h, s).len() >= rem_e(a, h, s.take(s.len() - k)).len() + k
    decreases k
{
    if k == 0 { assert(s.take(s.len() as int) =~= s); }
    else {
        lemma_rem_e_len_ge(a, h, s.drop_last(), k - 1);
        assert(s.drop_last().take(s.len() - 1 - (k - 1)) =~= s.take(s.len() - k));
    }
}

// DfsEdge::next(): pop the top edge, report it, push the edges leaving its target (lowest label on top)
pub open spec fn edge_step<N, const K: usize>(a: Arena<N, K>, s0: Seq<EItem>, s1: Seq<EItem>, last_push1: usize, r: Option<EdgeData>) -> bool {
    match r {
        None => s0.len() == 0 && s1 == s0,
        Some(ed) => s0.len() > 0 && ed.src == s0.last().1 && ed.label == s0.last().2 && ed.dest == s0.last().3
            && s1 == s0.drop_last() + kid_edges(a[s0.last().3].children, 0, (s0.last().0 + 1) as usize, s0.last().3).reverse()
            && last_push1 == count_some_from(a[s0.last().3].children, 0),
    }
}

pub proof fn lemma_edge_step<N, const K: usize>(a: Arena<N, K>, h: Map<usize, nat>, s0: Seq<EItem>, s1: Seq<EItem>, lp: usize, r: Option<EdgeData>)
    requires edge_inv(a, h, s0), edge_step(a, s0, s1, lp, r)
    ensures
        edge_inv(a, h, s1),
        r.is_none() ==> rem_e(a, h, s0).len() == 0,
        r.is_some() ==> rem_e(a, h, s0) == seq![s0.last()] + rem_e(a, h, s1),
        r.is_some() ==> lp <= s1.len() && s1.take(s1.len() - lp) == s0.drop_last()
            && rem_e(a, h, s0) == pre_edges(a, h, s0.last()) + rem_e(a, h, s0.drop_last()),
{
    if r.is_some() {
        let e = s0.last();
        let dp = (e.0 + 1) as usize;
        let kids = kid_edges(a[e.3].children, 0, dp, e.3);
        let rest = s0.drop_last();
        assert(a.dom().contains(e.3) && e.0 + h[e.3] < usize::MAX);
        lemma_kid_edges_below(a, h, e.3, 0, dp);
        lemma_kid_edges_len(a[e.3].children, 0, dp, e.3);
        lemma_rem_e_push_rev(a, h, rest, kids, h[e.3]);
        assert forall|j: int| 0 <= j < s1.len() implies a.dom().contains((#[trigger] s1[j]).3) && s1[j].0 + h[s1[j].3] < usize::MAX by {
            if j < rest.len() { assert(s1[j] == s0[j]); }
            else {
                let k = kids.len() - 1 - (j - rest.len());
                assert(s1[j] == kids.reverse()[j - rest.len()]);
                assert(kids.reverse()[j - rest.len()] == kids[k]);
            }
        }
        assert(s1.take(s1.len() - lp) =~= rest);
    }
}

pub open spec fn eskip_step(s0: Seq<EItem>, lp0: usize, s1: Seq<EItem>, lp1: usize) -> bool {
    lp1 == 0 && s1 == s0.take(if lp0 <= s0.len() { s0.len() - lp0 } else { 0 })
}

pub proof fn lemma_edge_next_then_skip<N, const K: usize>(a: Arena<N, K>, h: Map<usize, nat>, s0: Seq<EItem>, s1: Seq<EItem>, lp1: usize, ed: EdgeData,
    s2: Seq<EItem>, lp2: usize, s3: Seq<EItem>, lp3: usize)
    requires edge_inv(a, h, s0), edge_step(a, s0, s1, lp1, Some(ed)), eskip_step(s1, lp1, s2, lp2), eskip_step(s2, lp2, s3, lp3)
    ensures rem_e(a, h, s0) == pre_edges(a, h, s0.last()) + rem_e(a, h, s2), s3 == s2, edge_inv(a, h, s2)
{
    lemma_edge_step(a, h, s0, s1, lp1, Some(ed));
    assert(s2 == s0.drop_last());
    assert(s3 =~= s2);
    assert forall|j: int| 0 <= j < s2.len() implies a.dom().contains((#[trigger] s2[j]).3) && s2[j].0 + h[s2[j].3] < usize::MAX by { assert(s2[j] == s0[j]); }
}

pub open spec fn esize_ok<N, const K: usize>(a: Arena<N, K>, h: Map<usize, nat>, s: Seq<EItem>, lb: usize, ub: usize) -> bool {
    lb <= rem_e(a, h, s).len() <= ub
}

// ------------------------------------------------------------------ breadth first (Bfs)
// next(): take the front item; append its children in ascending label order, one level deeper, each with the
// number of siblings that follow it
pub open spec fn bfs_step<N, const K: usize>(a: Arena<N, K>, q0: Seq<DfsNodeData>, q1: Seq<DfsNodeData>, last_push1: usize, r: Option<DfsNodeData>) -> bool {
    match r {
        None => q0.len() == 0 && q1 == q0,
        Some(data) => q0.len() > 0 && data == q0.first()
            && q1 == q0.drop_first() + kid_items(a[data.index].children, 0, (data.depth + 1) as usize)
            && last_push1 == count_some_from(a[data.index].children, 0),
    }
}
// skip_subtree(): drop the children appended by the last next() from the back of the queue
pub open spec fn bfs_skip_step(q0: Seq<DfsNodeData>, lp0: usize, q1: Seq<DfsNodeData>, lp1: usize) -> bool {
    lp1 == 0 && q1 == q0.take(if lp0 <= q0.len() { q0.len() - lp0 } else { 0 })
}
// after next() returned `data`, skip_subtree() leaves exactly the queue without data's children (hence without its descendants)
pub proof fn lemma_bfs_next_then_skip<N, const K: usize>(a: Arena<N, K>, q0: Seq<DfsNodeData>, q1: Seq<DfsNodeData>, lp1: usize, data: DfsNodeData,
    q2: Seq<DfsNodeData>, lp2: usize, q3: Seq<DfsNodeData>, lp3: usize)
    requires bfs_step(a, q0, q1, lp1, Some(data)), bfs_skip_step(q1, lp1, q2, lp2), bfs_skip_step(q2, lp2, q3, lp3)
    ensures q2 == q0.drop_first(), q3 == q2
{
    lemma_kid_items_len(a[data.index].children, 0, (data.depth + 1) as usize);
    assert(q2 =~= q0.drop_first());
    assert(q3 =~= q2);
}
// ---- end iter_spec ----
