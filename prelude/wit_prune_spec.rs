// ---- prelude/wit_prune_spec.rs : C05 through the PRUNING composition (generic_composition_inplace with an edge oracle: copies are added, refused copies removed again, single-branch copies spliced out) ----
// (specification: prelude/wit_core_spec.rs)
// W is the ghost set of nodes of the original arena a0 that are still the same node (indices of spliced-out nodes may be reused by new nodes).
// Only nodes of W can carry a cache; their state and parent pointer are the original ones; the decisions of a0 are all in W, keep their value, never lose a
// child slot and keep every slot that holds a node of W.
#[verifier::opaque]
pub open spec fn gi_inv<const K: usize>(a0: AArena<K>, a: AArena<K>, w: Set<usize>) -> bool {
    &&& forall|i: usize| #![trigger w.contains(i)] w.contains(i) ==> a.dom().contains(i) && a0.dom().contains(i) && a[i].value.state == a0[i].value.state && a[i].parent == a0[i].parent
    &&& forall|i: usize| #![trigger a[i].value] a.dom().contains(i) && !w.contains(i) ==> a[i].value.state is Indeterminate
    &&& forall|d: usize| #![trigger a0[d].isleaf] a0.dom().contains(d) && !a0[d].isleaf ==> w.contains(d) && a[d].value == a0[d].value && gi_slots(a0[d], a[d], w)
}
pub open spec fn gi_slots<const K: usize>(n0: AffNode<K>, n: AffNode<K>, w: Set<usize>) -> bool {
    forall|l: int| 0 <= l < K && (#[trigger] n0.children[l]) is Some ==> n.children[l] is Some && (w.contains(n0.children[l].unwrap()) ==> n.children[l] == n0.children[l])
}
// p is not a decision of the original tree
pub open spec fn gi_notdec<const K: usize>(a0: AArena<K>, p: usize) -> bool { a0.dom().contains(p) ==> a0[p].isleaf }

pub proof fn lemma_gi_init<const K: usize>(a0: AArena<K>)
    ensures gi_inv(a0, a0, a0.dom())
{ reveal(gi_inv); }
// a copy popped from the work stack is childless, so it is no decision of the original tree (those never lose a child slot)
pub proof fn lemma_gi_notdec<const K: usize>(a0: AArena<K>, a: AArena<K>, w: Set<usize>, p: usize)
    requires gi_inv(a0, a, w), leaf_ok(a0), no_kids(a[p])
    ensures gi_notdec(a0, p)
{
    reveal(gi_inv);
    if a0.dom().contains(p) && !a0[p].isleaf {
        assert(!no_kids(a0[p]));
        let l = choose|l: int| 0 <= l < K && !(#[trigger] a0[p].children[l]).is_none();
        assert(gi_slots(a0[p], a[p], w));
        assert(a[p].children[l] is Some);
    }
}
// update_node at a listed terminal: only the function of a node that is a terminal of the original tree changes
pub proof fn lemma_gi_update<const K: usize>(a0: AArena<K>, a1: AArena<K>, a2: AArena<K>, w: Set<usize>, t: usize)
    requires gi_inv(a0, a1, w), gi_notdec(a0, t), a1.dom().contains(t), a2.dom() == a1.dom(),
        a2[t].value.state == a1[t].value.state, a2[t].parent == a1[t].parent, a2[t].children == a1[t].children,
        forall|i: usize| a1.dom().contains(i) && i != t ==> #[trigger] a2[i] == a1[i],
    ensures gi_inv(a0, a2, w)
{
    reveal(gi_inv);
    assert forall|i: usize| #![trigger w.contains(i)] w.contains(i) implies a2.dom().contains(i) && a0.dom().contains(i) && a2[i].value.state == a0[i].value.state && a2[i].parent == a0[i].parent by {
        if i != t { assert(a2[i] == a1[i]); }
    }
    assert forall|i: usize| #![trigger a2[i].value] a2.dom().contains(i) && !w.contains(i) implies a2[i].value.state is Indeterminate by {
        if i != t { assert(a2[i] == a1[i]); }
        assert(a1[i].value.state is Indeterminate);
    }
    assert forall|d: usize| #![trigger a0[d].isleaf] a0.dom().contains(d) && !a0[d].isleaf implies w.contains(d) && a2[d].value == a0[d].value && gi_slots(a0[d], a2[d], w) by {
        assert(d != t);
        assert(w.contains(d)); assert(a1.dom().contains(d));
        assert(a2[d] == a1[d]);
        assert(gi_slots(a0[d], a1[d], w));
    }
}
// a fresh copy without cache is attached under an empty slot
pub proof fn lemma_gi_add<const K: usize>(a0: AArena<K>, a1: AArena<K>, a2: AArena<K>, w: Set<usize>, parent: usize, label: usize, c: usize)
    requires gi_inv(a0, a1, w), child_added(a1, a2, parent, label, c), a2[c].value.state is Indeterminate, a2[parent].value == a1[parent].value,
    ensures gi_inv(a0, a2, w)
{
    reveal(gi_inv);
    assert(!w.contains(c));
    assert forall|i: usize| #![trigger w.contains(i)] w.contains(i) implies a2.dom().contains(i) && a0.dom().contains(i) && a2[i].value.state == a0[i].value.state && a2[i].parent == a0[i].parent by {
        assert(a1.dom().contains(i));
        if i != parent { assert(a2[i] == a1[i]); }
    }
    assert forall|i: usize| #![trigger a2[i].value] a2.dom().contains(i) && !w.contains(i) implies a2[i].value.state is Indeterminate by {
        if i != c { assert(a1.dom().contains(i)); if i != parent { assert(a2[i] == a1[i]); } assert(a1[i].value.state is Indeterminate); }
    }
    assert forall|d: usize| #![trigger a0[d].isleaf] a0.dom().contains(d) && !a0[d].isleaf implies w.contains(d) && a2[d].value == a0[d].value && gi_slots(a0[d], a2[d], w) by {
        assert(w.contains(d)); assert(a1.dom().contains(d));
        assert(gi_slots(a0[d], a1[d], w));
        if d != parent { assert(a2[d] == a1[d]); }
        else {
            assert forall|l: int| 0 <= l < K && (#[trigger] a0[d].children[l]) is Some implies a2[d].children[l] is Some && (w.contains(a0[d].children[l].unwrap()) ==> a2[d].children[l] == a0[d].children[l]) by {
                assert(a1[d].children[l] is Some);
                assert(l != label);
                assert(a2[d].children@[l] == a1[d].children@[l]);
            }
        }
    }
}
// a single-branch copy p (no decision of the original tree) is spliced out: its child - necessarily a new node - takes its slot
pub proof fn lemma_gi_merge<const K: usize>(a0: AArena<K>, a1: AArena<K>, a2: AArena<K>, w: Set<usize>, p: usize, f: usize, is_err: bool)
    requires gi_inv(a0, a1, w), merge_post(a1, a2, p, f, is_err), gi_notdec(a0, p), links_ok(a0), kids_ok(a1), parents_ok(a1)
    ensures gi_inv(a0, a2, if is_err { w } else { w.remove(p) })
{
    reveal(gi_inv);
    if !is_err {
        let gl = choose|gl: int| merged(a1, a2, p, f, gl);
        let c = a1[p].children[f as int].unwrap();
        let g = a1[p].parent.unwrap();
        let w2 = w.remove(p);
        assert(a1.dom().contains(g));
        assert(a1.dom().contains(c) && a1[c].parent == Some(p));
        // the child is not an original node: its original parent would be p, a decision of the original tree
        assert(!w.contains(c)) by {
            if w.contains(c) {
                assert(a0[c].parent == Some(p));
                assert(a0.dom().contains(p));
                let l0 = choose|l0: int| 0 <= l0 < K && #[trigger] a0[p].children[l0] == Some(c);
                assert(!no_kids(a0[p]));
            }
        }
        assert forall|i: usize| #![trigger w2.contains(i)] w2.contains(i) implies a2.dom().contains(i) && a0.dom().contains(i) && a2[i].value.state == a0[i].value.state && a2[i].parent == a0[i].parent by {
            assert(w.contains(i) && i != p && i != c);
            if i != g { assert(a2[i] == a1[i]); }
        }
        assert forall|i: usize| #![trigger a2[i].value] a2.dom().contains(i) && !w2.contains(i) implies a2[i].value.state is Indeterminate by {
            assert(a1.dom().contains(i) && i != p && !w.contains(i));
            if i != g && i != c { assert(a2[i] == a1[i]); }
            assert(a1[i].value.state is Indeterminate);
        }
        assert forall|d: usize| #![trigger a0[d].isleaf] a0.dom().contains(d) && !a0[d].isleaf implies w2.contains(d) && a2[d].value == a0[d].value && gi_slots(a0[d], a2[d], w2) by {
            assert(d != p);
            assert(w.contains(d)); assert(a1.dom().contains(d)); assert(d != c);
            assert(gi_slots(a0[d], a1[d], w));
            if d != g { assert(a2[d] == a1[d]); }
            else {
                assert forall|l: int| 0 <= l < K && (#[trigger] a0[d].children[l]) is Some implies a2[d].children[l] is Some && (w2.contains(a0[d].children[l].unwrap()) ==> a2[d].children[l] == a0[d].children[l]) by {
                    assert(a1[d].children[l] is Some);
                    assert(a2[d].children@[l] == a1[d].children@.update(gl, Some(c))[l]);
                    if l == gl && w2.contains(a0[d].children[l].unwrap()) {
                        assert(a1[d].children[l] == a0[d].children[l]);
                        assert(a1[g].children[gl] == Some(p));
                    }
                }
            }
        }
    }
}
// every node on the parent chain of a node of W is a node of W, with the original chain
pub proof fn lemma_gi_chain<const K: usize>(a0: AArena<K>, a: AArena<K>, w: Set<usize>, k: usize, c: usize, f: nat)
    requires gi_inv(a0, a, w), links_ok(a0), w.contains(c), is_desc(a, k, c, f)
    ensures is_desc(a0, k, c, f), w.contains(k)
    decreases f
{
    reveal(gi_inv);
    assert(a[c].parent == a0[c].parent);
    let p = a[c].parent.unwrap();
    assert(a0.dom().contains(p));
    let l0 = choose|l0: int| 0 <= l0 < K && #[trigger] a0[p].children[l0] == Some(c);
    assert(!no_kids(a0[p]));
    assert(!a0[p].isleaf);
    assert(w.contains(p));
    if p != k { lemma_gi_chain(a0, a, w, k, p, (f - 1) as nat); }
}
// witnesses that were right before are right afterwards; nothing new carries a witness
pub proof fn lemma_gi_final<const K: usize>(a0: AArena<K>, a: AArena<K>, w: Set<usize>)
    requires gi_inv(a0, a, w), links_ok(a0), kids_ok(a), kids_unique(a), wit_inv(a0, a0)
    ensures wit_inv(a, a)
{
    reveal(wit_inv);
    assert forall|c: usize| #![trigger a[c].value] a.dom().contains(c) implies wits_ok(a, c, a[c].value.state) by {
        if let NodeState::FeasibleWitness(v) = a[c].value.state {
            assert(w.contains(c)) by { reveal(gi_inv); if !w.contains(c) { assert(a[c].value.state is Indeterminate); } }
            assert(a0.dom().contains(c) && a[c].value.state == a0[c].value.state) by { reveal(gi_inv); }
            assert(wits_ok(a0, c, a0[c].value.state));
            assert forall|i: int| 0 <= i < v@.len() implies wit_on_path(a, c, (#[trigger] v@[i]).v()) by {
                let x = v@[i].v();
                assert(wit_on_path(a0, c, x));
                assert forall|p: usize, l: int| #[trigger] edge_above(a, p, l, c) implies wit_edge(a[p].value.aff, l, x) by {
                    let k = a[p].children[l].unwrap();
                    assert(a.dom().contains(k) && a[k].parent == Some(p));
                    if k != c { let f = choose|f: nat| is_desc(a, k, c, f); lemma_gi_chain(a0, a, w, k, c, f); }
                    assert(w.contains(k));
                    reveal(gi_inv);
                    assert(a0[k].parent == Some(p));
                    assert(a0.dom().contains(p));
                    let l0 = choose|l0: int| 0 <= l0 < K && #[trigger] a0[p].children[l0] == Some(k);
                    assert(!no_kids(a0[p]));
                    assert(!a0[p].isleaf);
                    assert(gi_slots(a0[p], a[p], w));
                    assert(a[p].children[l0] == Some(k));
                    if l != l0 { assert(a[p].children[l] != a[p].children[l0]); }
                    assert(a[p].value == a0[p].value);
                    assert(edge_above(a0, p, l, c));
                }
            }
        }
    }
}
// ---- end wit_prune_spec ----
