// ---- prelude/inc_aff_core.rs : AffFuncBase items, spec vocabulary and the core functions (shared extraction blocks) ----
//@item src/linalg/affine.rs | struct AffFuncBase
//@item src/linalg/affine.rs | struct FunctionT
//@item src/linalg/affine.rs | struct PolytopeT
type AffFuncG<A> = AffFuncBase<FunctionT, OwnedRepr<A>>;
type PolytopeG<A> = AffFuncBase<PolytopeT, OwnedRepr<A>>;
pub type AffFunc = AffFuncG<f64>;
pub type Polytope = PolytopeG<f64>;

// an AffFuncBase read as a function x |-> M x + b, or as a conjunction of half-spaces {x | M x <= b}
impl<I, S: Data<Elem = A>, A: Float> AffFuncBase<I, S> {
    pub open spec fn ok(&self) -> bool { self.mat.nrows() == self.bias.v().len() }
    pub open spec fn ap(&self, x: V) -> V { vadd(mv(self.mat.m(), x), self.bias.v()) }
    pub open spec fn row_sat(&self, i: int, x: V) -> bool { dotp(self.mat.m()[i], x, x.len() as int) <= self.bias.v()[i] }
    pub open spec fn sat(&self, x: V) -> bool { forall|i: int| 0 <= i < self.mat.nrows() ==> #[trigger] self.row_sat(i, x) }
}
pub open spec fn unit_vec(n: int, i: int, s: real) -> V { Seq::new(n as nat, |j: int| if j == i { s } else { 0real }) }

impl<I, D: Data<Elem = A>, A: Float> AffFuncBase<I, D> {
//@fn src/linalg/affine.rs | impl<I, D: Data<Elem = A>, A: Float> AffFuncBase<I, D> | from_mats
//@spec
    requires mat.nrows() == bias.v().len()
    ensures r.mat == mat, r.bias == bias, r.ok()
//@end
//@fn src/linalg/affine.rs | impl<I, D: Data<Elem = A>, A: Float> AffFuncBase<I, D> | indim
//@spec
    ensures r == self.mat.ncols()
//@end
//@fn src/linalg/affine.rs | impl<I, D: Data<Elem = A>, A: Float> AffFuncBase<I, D> | outdim
//@spec
    ensures r == self.mat.nrows()
//@end
}
impl<I, S: Data<Elem = A>, A: Float> AffFuncBase<I, S> {
//@fn src/linalg/affine.rs | impl<I, S: Data<Elem = A>, A: Float> AffFuncBase<I, S> | to_owned
//@spec
    ensures r.mat.m() == self.mat.m(), r.bias.v() == self.bias.v(), r.mat.nrows() == self.mat.nrows(), r.mat.ncols() == self.mat.ncols()
//@end
}
impl<I, D: Data<Elem = A> + RawDataClone, A: Float + Clone> AffFuncBase<I, D> {
//@fn src/linalg/affine.rs | impl<I, D: Data<Elem = A> + RawDataClone, A: Float + Clone> Clone for AffFuncBase<I, D> | clone | as=clone_aff
//@spec
    ensures r.mat.m() == self.mat.m(), r.bias.v() == self.bias.v(), r.mat.nrows() == self.mat.nrows(), r.mat.ncols() == self.mat.ncols()
//@end
}
impl<A: Float> AffFuncG<A> {
//@fn src/linalg/affine.rs | impl<A: Float> AffFuncG<A> | identity
//@spec
    ensures r.ok(), r.mat.ncols() == dim, r.mat.nrows() == dim,
        r.mat.m() == eye(dim as int), r.bias.v() == vconst(dim as int, 0real),
        forall|x: V| x.len() == dim ==> #[trigger] r.ap(x) =~= x,
//@hint start
        proof { assert forall|x: V| x.len() == dim implies #[trigger] vadd(mv(eye(dim as int), x), vconst(dim as int, 0real)) =~= x by { lemma_mv_eye(dim as int, x); } }
//@end
//@fn src/linalg/affine.rs | impl<A: Float> AffFuncG<A> | zeros
//@spec
    ensures r.ok(), r.mat.ncols() == dim, r.mat.nrows() == dim,
        forall|x: V| x.len() == dim ==> #[trigger] r.ap(x) =~= vconst(dim as int, 0real),
//@hint start
        proof { assert forall|x: V| x.len() == dim implies #[trigger] vadd(mv(mconst(dim as int, dim as int, 0real), x), vconst(dim as int, 0real)) =~= vconst(dim as int, 0real) by { lemma_mv_zero(dim as int, dim as int, x); } }
//@end
//@fn src/linalg/affine.rs | impl<A: Float> AffFuncG<A> | constant
//@spec
    ensures r.ok(), r.mat.ncols() == dim, r.mat.nrows() == 1,
        r.mat.m() == mconst(1, dim as int, 0real), r.bias.v() =~= seq![value.rv()],
        forall|x: V| x.len() == dim ==> #[trigger] r.ap(x) =~= seq![value.rv()],
//@hint start
        proof { assert forall|x: V| x.len() == dim implies #[trigger] mv(mconst(1, dim as int, 0real), x) =~= vconst(1, 0real) by { lemma_mv_zero(1, dim as int, x); } }
//@end
//@fn src/linalg/affine.rs | impl<A: Float> AffFuncG<A> | unit
//@spec
    requires index < dim
    ensures r.ok(), r.mat.ncols() == dim, r.mat.nrows() == 1,
        r.mat.m() == mset(mconst(1, dim as int, 0real), 0, index as int, 1real), r.bias.v() == vconst(1, 0real),
        forall|x: V| x.len() == dim ==> #[trigger] r.ap(x) =~= seq![x[index as int]],
//@hint start
        proof {
            assert forall|x: V| x.len() == dim implies #[trigger] mv(mset(mconst(1, dim as int, 0real), 0, index as int, 1real), x) =~= seq![x[index as int]] by {
                let row = mset(mconst(1, dim as int, 0real), 0, index as int, 1real)[0];
                lemma_dotp_unit(row, x, dim as int, index as int, 1real);
                assert(1real * x[index as int] == x[index as int]) by(nonlinear_arith);
            }
        }
//@end
//@fn src/linalg/affine.rs | impl<A: Float> AffFuncG<A> | zero_idx
//@spec
    requires index < dim
    ensures r.ok(), r.mat.ncols() == dim, r.mat.nrows() == dim,
        r.mat.m() == mset(eye(dim as int), index as int, index as int, 0real), r.bias.v() == vconst(dim as int, 0real),
        forall|x: V| x.len() == dim ==> #[trigger] r.ap(x) =~= x.update(index as int, 0real),
//@hint start
        proof {
            assert forall|x: V| x.len() == dim implies #[trigger] mv(mset(eye(dim as int), index as int, index as int, 0real), x) =~= x.update(index as int, 0real) by {
                let mm0 = mset(eye(dim as int), index as int, index as int, 0real);
                assert forall|i: int| 0 <= i < dim implies mv(mm0, x)[i] == x.update(index as int, 0real)[i] by {
                    if i == index {
                        lemma_dotp_zero_left(mm0[i], x, dim as int);
                    } else {
                        lemma_dotp_unit(mm0[i], x, dim as int, i, 1real);
                        assert(1real * x[i] == x[i]) by(nonlinear_arith);
                    }
                }
            }
        }
//@end
}
impl<D: Data<Elem = A>, A: Float + LinalgScalar> AffFuncBase<FunctionT, D> {
//@fn src/linalg/affine.rs | impl<D: Data<Elem = A>, A: Float + LinalgScalar> AffFuncBase<FunctionT, D> | apply
//@spec
    requires self.ok(), input.v().len() == self.mat.ncols()
    ensures r.v() == self.ap(input.v())
//@hint start
        broadcast use axiom_array2_shape;
//@end
//@fn src/linalg/affine.rs | impl<D: Data<Elem = A>, A: Float + LinalgScalar> AffFuncBase<FunctionT, D> | compose
//@spec
    requires self.ok(), other.ok(), self.mat.ncols() == other.mat.nrows()
    ensures r.ok(), r.mat.ncols() == other.mat.ncols(), r.mat.nrows() == self.mat.nrows(),
        // compose(f, g)(x) == f(g(x))
        forall|x: V| x.len() == other.mat.ncols() ==> #[trigger] r.ap(x) =~= self.ap(other.ap(x)),
//@hint start
        broadcast use axiom_array2_shape;
        proof {
            assert forall|x: V| x.len() == other.mat.ncols() implies
                #[trigger] vadd(mv(mm(self.mat.m(), other.mat.m(), other.mat.ncols()), x), vadd(mv(self.mat.m(), other.bias.v()), self.bias.v()))
                    =~= vadd(mv(self.mat.m(), vadd(mv(other.mat.m(), x), other.bias.v())), self.bias.v()) by {
                lemma_mm_mv(self.mat.m(), other.mat.m(), x, other.mat.ncols());
                lemma_mv_add_right(self.mat.m(), mv(other.mat.m(), x), other.bias.v());
            }
        }
//@end
}
// ---- end inc_aff_core ----
