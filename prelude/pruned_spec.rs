// ---- prelude/pruned_spec.rs : ghost bookkeeping and step lemmas for generic_composition_inplace with a pruning schema (any oracle) ----
// ---------------------------------------------------------------- specification
#[verifier::opaque]
pub open spec fn terminals_ok<const K: usize>(a: AArena<K>, ts: Seq<usize>, dl: usize) -> bool {
    &&& forall|j: int| 0 <= j < ts.len() ==> a.dom().contains(#[trigger] ts[j]) && a[ts[j]].isleaf && a[ts[j]].value.aff.mat.nrows() == dl
    &&& forall|j1: int, j2: int| 0 <= j1 < j2 < ts.len() ==> ts[j1] != ts[j2]
}
// ghost bookkeeping while one terminal t is expanded: kind maps every node created so far (and still present) to the lhs node it copies,
// pend are the copies waiting on the work stack, cur is the copy whose children are being created
#[verifier::opaque]
pub open spec fn pr_inv<const K: usize>(al: AArena<K>, a: AArena<K>, a_s: AArena<K>, kind: Map<usize, usize>, pend: Set<usize>, cur: Option<usize>, t: usize, in_dim: usize) -> bool {
    &&& forall|n: usize| #[trigger] kind.dom().contains(n) ==> a.dom().contains(n) && al.dom().contains(kind[n]) && (n == t || !a_s.dom().contains(n))
            && a[n].value.aff.ok() && a[n].value.aff.mat.ncols() == in_dim && a[n].value.aff.mat.nrows() == al[kind[n]].value.aff.mat.nrows()
            && (!a[n].isleaf ==> !al[kind[n]].isleaf)
    &&& forall|n: usize| #[trigger] pend.contains(n) ==> kind.dom().contains(n) && a[n].isleaf && no_kids(a[n])
    &&& forall|n: usize| #[trigger] kind.dom().contains(n) && !pend.contains(n) && Some(n) != cur ==> a[n].isleaf == al[kind[n]].isleaf
    &&& forall|i: usize| #[trigger] a.dom().contains(i) ==> kind.dom().contains(i) || (a_s.dom().contains(i) && i != t)
    &&& forall|i: usize| #[trigger] a_s.dom().contains(i) && i != t ==> a.dom().contains(i) && !kind.dom().contains(i) && a[i].value == a_s[i].value
            && a[i].isleaf == a_s[i].isleaf && (a_s[i].isleaf ==> a[i] == a_s[i])
}
#[verifier::opaque]
pub open spec fn pr_stack(kind: Map<usize, usize>, pend: Set<usize>, stack: Seq<(usize, usize)>) -> bool {
    &&& forall|j: int| 0 <= j < stack.len() ==> pend.contains((#[trigger] stack[j]).1) && kind[stack[j].1] == stack[j].0
    &&& forall|j1: int, j2: int| 0 <= j1 < j2 < stack.len() ==> (#[trigger] stack[j1]).1 != (#[trigger] stack[j2]).1
    &&& forall|n: usize| #[trigger] pend.contains(n) ==> exists|j: int| 0 <= j < stack.len() && (#[trigger] stack[j]).1 == n
}
// state between terminals: the listed terminals from position t on are untouched; every terminal of the tree is such a one, an unlisted old terminal,
// or has the output dimension of a terminal of the left operand; old nodes that are not processed terminals keep value and kind
#[verifier::opaque]
pub open spec fn pr_outer<const K: usize>(al: AArena<K>, a0: AArena<K>, a: AArena<K>, ts: Seq<usize>, t: int) -> bool {
    &&& forall|j: int| t <= j < ts.len() ==> a.dom().contains(#[trigger] ts[j]) && a[ts[j]] == a0[ts[j]]
    &&& forall|i: usize| a.dom().contains(i) && #[trigger] a[i].isleaf ==>
            (a0.dom().contains(i) && a0[i].isleaf && a[i] == a0[i] && (forall|j: int| 0 <= j < t && j < ts.len() ==> ts[j] != i))
            || (exists|p: usize| al.dom().contains(p) && (#[trigger] al[p]).isleaf && a[i].value.aff.mat.nrows() == al[p].value.aff.mat.nrows())
}

// ---------------------------------------------------------------- lemmas
pub proof fn lemma_pr_outer_init<const K: usize>(al: AArena<K>, a0: AArena<K>, ts: Seq<usize>, dl: usize)
    requires terminals_ok(a0, ts, dl)
    ensures pr_outer(al, a0, a0, ts, 0)
{
    reveal(pr_outer); reveal(terminals_ok);
}

pub proof fn lemma_pr_pick<const K: usize>(al: AArena<K>, a0: AArena<K>, a: AArena<K>, ts: Seq<usize>, t: int, dl: usize, in_dim: usize)
    requires terminals_ok(a0, ts, dl), pr_outer(al, a0, a, ts, t), 0 <= t < ts.len(), leaf_ok(a), aff_shape_ok(a, in_dim)
    ensures a.dom().contains(ts[t]), a[ts[t]] == a0[ts[t]], a[ts[t]].isleaf, no_kids(a[ts[t]]),
        a[ts[t]].value.aff.mat.nrows() == dl, a[ts[t]].value.aff.ok(), a[ts[t]].value.aff.mat.ncols() == in_dim,
{
    reveal(terminals_ok); reveal(pr_outer);
    assert(a[ts[t]] == a0[ts[t]]);
}

// the terminal received the composed root function
pub proof fn lemma_pr_start<const K: usize>(al: AArena<K>, a_s: AArena<K>, a: AArena<K>, rl: usize, t: usize, in_dim: usize)
    requires al.dom().contains(rl), a_s.dom().contains(t), a_s[t].isleaf, no_kids(a_s[t]), aff_shape_ok(a_s, in_dim),
        same_shape(a_s, a), forall|i: usize| a_s.dom().contains(i) && i != t ==> a[i] == a_s[i],
        a[t].value.aff.ok(), a[t].value.aff.mat.ncols() == in_dim, a[t].value.aff.mat.nrows() == al[rl].value.aff.mat.nrows(),
    ensures pr_inv(al, a, a_s, Map::<usize, usize>::empty().insert(t, rl), set![t], None, t, in_dim),
        pr_stack(Map::<usize, usize>::empty().insert(t, rl), set![t], seq![(rl, t)]),
{
    reveal(pr_inv); reveal(pr_stack);
    assert(a[t].isleaf && a[t].children == a_s[t].children);
    assert(no_kids(a[t]));
    let stk = seq![(rl, t)];
    assert forall|n: usize| #[trigger] set![t].contains(n) implies exists|j: int| 0 <= j < stk.len() && (#[trigger] stk[j]).1 == n by { assert(stk[0].1 == t); }
}

pub proof fn lemma_pr_pop<const K: usize>(al: AArena<K>, a: AArena<K>, a_s: AArena<K>, kind: Map<usize, usize>, pend: Set<usize>, t: usize, in_dim: usize,
    rest: Seq<(usize, usize)>, it: (usize, usize))
    requires pr_inv(al, a, a_s, kind, pend, None, t, in_dim),
        exists|s0: Seq<(usize, usize)>| #[trigger] pr_stack(kind, pend, s0) && s0.len() > 0 && s0.last() == it && s0.drop_last() == rest,
    ensures pr_inv(al, a, a_s, kind, pend.remove(it.1), Some(it.1), t, in_dim), pr_stack(kind, pend.remove(it.1), rest),
        kind.dom().contains(it.1), kind[it.1] == it.0, al.dom().contains(it.0), a.dom().contains(it.1), a[it.1].isleaf, no_kids(a[it.1]),
        a[it.1].value.aff.mat.nrows() == al[it.0].value.aff.mat.nrows(), !pend.remove(it.1).contains(it.1),
{
    reveal(pr_inv); reveal(pr_stack);
    let s0 = choose|s0: Seq<(usize, usize)>| #[trigger] pr_stack(kind, pend, s0) && s0.len() > 0 && s0.last() == it && s0.drop_last() == rest;
    assert(s0[s0.len() - 1] == it);
    let pend1 = pend.remove(it.1);
    assert forall|j: int| 0 <= j < rest.len() implies pend1.contains((#[trigger] rest[j]).1) && kind[rest[j].1] == rest[j].0 by { assert(rest[j] == s0[j]); }
    assert forall|j1: int, j2: int| 0 <= j1 < j2 < rest.len() implies (#[trigger] rest[j1]).1 != (#[trigger] rest[j2]).1 by { assert(rest[j1] == s0[j1] && rest[j2] == s0[j2]); }
    assert forall|n: usize| #[trigger] pend1.contains(n) implies exists|j: int| 0 <= j < rest.len() && (#[trigger] rest[j]).1 == n by {
        let j = choose|j: int| 0 <= j < s0.len() && (#[trigger] s0[j]).1 == n;
        assert(j < s0.len() - 1);
        assert(rest[j] == s0[j]);
    }
}

// a child copy c of lhs node c0 was attached below cur and is kept
pub proof fn lemma_pr_keep<const K: usize>(al: AArena<K>, a0: AArena<K>, a1: AArena<K>, a_s: AArena<K>, kind: Map<usize, usize>, pend: Set<usize>, t: usize, in_dim: usize,
    st: Seq<(usize, usize)>, p1: usize, label: usize, c0: usize, c: usize)
    requires pr_inv(al, a0, a_s, kind, pend, Some(p1), t, in_dim), pr_stack(kind, pend, st), kind.dom().contains(p1), !pend.contains(p1),
        al.dom().contains(c0), !al[kind[p1]].isleaf,
        child_added(a0, a1, p1, label, c), a1[p1].value == a0[p1].value,
        a1[c].value.aff.ok(), a1[c].value.aff.mat.ncols() == in_dim, a1[c].value.aff.mat.nrows() == al[c0].value.aff.mat.nrows(),
    ensures pr_inv(al, a1, a_s, kind.insert(c, c0), pend.insert(c), Some(p1), t, in_dim), pr_stack(kind.insert(c, c0), pend.insert(c), st.push((c0, c))),
{
    reveal(pr_inv); reveal(pr_stack);
    let kind1 = kind.insert(c, c0);
    let pend1 = pend.insert(c);
    let st1 = st.push((c0, c));
    assert(c != p1 && !a0.dom().contains(c));
    assert(!kind.dom().contains(c)) by { if kind.dom().contains(c) { assert(a0.dom().contains(c)); } }
    assert(!a_s.dom().contains(c) || c == t) by { if a_s.dom().contains(c) && c != t { assert(a0.dom().contains(c)); } }
    assert forall|i: usize| a0.dom().contains(i) && i != p1 implies a1[i] == a0[i] by {}
    assert forall|n: usize| #[trigger] kind1.dom().contains(n) implies a1.dom().contains(n) && al.dom().contains(kind1[n]) && (n == t || !a_s.dom().contains(n))
            && a1[n].value.aff.ok() && a1[n].value.aff.mat.ncols() == in_dim && a1[n].value.aff.mat.nrows() == al[kind1[n]].value.aff.mat.nrows()
            && (!a1[n].isleaf ==> !al[kind1[n]].isleaf) by {
        if n != c { assert(kind.dom().contains(n)); }
    }
    assert forall|n: usize| #[trigger] pend1.contains(n) implies kind1.dom().contains(n) && a1[n].isleaf && no_kids(a1[n]) by {
        if n != c { assert(pend.contains(n)); assert(n != p1); }
    }
    assert forall|n: usize| #[trigger] kind1.dom().contains(n) && !pend1.contains(n) && Some(n) != Some(p1) implies a1[n].isleaf == al[kind1[n]].isleaf by {
        assert(kind.dom().contains(n));
    }
    assert forall|i: usize| #[trigger] a1.dom().contains(i) implies kind1.dom().contains(i) || (a_s.dom().contains(i) && i != t) by {
        if i != c { assert(a0.dom().contains(i)); }
    }
    assert forall|i: usize| #[trigger] a_s.dom().contains(i) && i != t implies a1.dom().contains(i) && !kind1.dom().contains(i) && a1[i].value == a_s[i].value
            && a1[i].isleaf == a_s[i].isleaf && (a_s[i].isleaf ==> a1[i] == a_s[i]) by {
        assert(a0.dom().contains(i) && !kind.dom().contains(i));
        assert(i != p1);
    }
    assert forall|j: int| 0 <= j < st1.len() implies pend1.contains((#[trigger] st1[j]).1) && kind1[st1[j].1] == st1[j].0 by {
        if j < st.len() { assert(st1[j] == st[j]); assert(pend.contains(st[j].1)); assert(kind.dom().contains(st[j].1)); }
    }
    assert forall|j1: int, j2: int| 0 <= j1 < j2 < st1.len() implies (#[trigger] st1[j1]).1 != (#[trigger] st1[j2]).1 by {
        assert(st1[j1] == st[j1]); assert(pend.contains(st[j1].1)); assert(kind.dom().contains(st[j1].1));
        if j2 < st.len() { assert(st1[j2] == st[j2]); }
    }
    assert forall|n: usize| #[trigger] pend1.contains(n) implies exists|j: int| 0 <= j < st1.len() && (#[trigger] st1[j]).1 == n by {
        if n == c { assert(st1[st.len() as int].1 == c); }
        else { assert(pend.contains(n)); let j = choose|j: int| 0 <= j < st.len() && (#[trigger] st[j]).1 == n; assert(st1[j] == st[j]); }
    }
}

// a child that was attached and removed again leaves the arena as it was
pub proof fn lemma_prune_roundtrip<N, const K: usize>(a0: Arena<N, K>, a1: Arena<N, K>, a2: Arena<N, K>, root: Option<usize>, p: usize, label: usize, c: usize)
    requires wf_at(a0, root), wf_at(a1, root), child_added(a0, a1, p, label, c), a1[p].value == a0[p].value, child_removed(a1, a2, p, label)
    ensures a2 =~= a0
{
    assert(a1[p].children[label as int] == Some(c)) by { assert(a1[p].children@[label as int] == Some(c)); }
    // c is a leaf of a1: nothing hangs below it
    assert forall|i: usize| !desc(a1, c, i) by { if desc(a1, c, i) { lemma_desc_has_kid(a1, c, i); } }
    assert(a2.dom() =~= a0.dom());
    assert(a2[p].children@ =~= a0[p].children@);
    assert(a2[p].children == a0[p].children);
    lemma_count_zero_no_kids(a0[p], 0);
    assert(no_kids(a2[p]) == no_kids(a0[p])) by {
        assert forall|l: int| 0 <= l < K implies a2[p].children[l] == a0[p].children[l] by {}
    }
    assert(a2[p].parent == a0[p].parent);
    assert(a2[p].value == a0[p].value);
    assert(a0[p].isleaf == no_kids(a0[p]));
    assert(a2[p].isleaf == a0[p].isleaf);
    assert(a2[p] == a0[p]);
    assert forall|i: usize| a0.dom().contains(i) implies a2[i] == a0[i] by {
        if i != p { assert(a1[i] == a0[i]); assert(a2.dom().contains(i)); assert(a2[i] == a1[i]); }
    }
}

// all children of cur handled, no forwarding: cur is done
pub proof fn lemma_pr_done<const K: usize>(al: AArena<K>, a: AArena<K>, a_s: AArena<K>, kind: Map<usize, usize>, pend: Set<usize>, t: usize, in_dim: usize, p1: usize)
    requires pr_inv(al, a, a_s, kind, pend, Some(p1), t, in_dim), kind.dom().contains(p1), a[p1].isleaf == al[kind[p1]].isleaf
    ensures pr_inv(al, a, a_s, kind, pend, None, t, in_dim)
{
    reveal(pr_inv);
}

// forwarding: cur has exactly one child and is spliced out
pub proof fn lemma_pr_merge<const K: usize>(al: AArena<K>, a0: AArena<K>, a1: AArena<K>, a_s: AArena<K>, kind: Map<usize, usize>, pend: Set<usize>, t: usize, in_dim: usize,
    st: Seq<(usize, usize)>, p1: usize, label: usize, root: Option<usize>)
    requires pr_inv(al, a0, a_s, kind, pend, Some(p1), t, in_dim), pr_stack(kind, pend, st), kind.dom().contains(p1), !pend.contains(p1),
        wf_at(a0, root), merge_post(a0, a1, p1, label, false), a0[p1].children[label as int] is Some, pend.contains(a0[p1].children[label as int].unwrap()),
    ensures pr_inv(al, a1, a_s, kind.remove(p1), pend, None, t, in_dim), pr_stack(kind.remove(p1), pend, st),
{
    reveal(pr_inv); reveal(pr_stack);
    let gl = choose|gl: int| merged(a0, a1, p1, label, gl);
    let c = a0[p1].children[label as int].unwrap();
    let g = a0[p1].parent.unwrap();
    let kind1 = kind.remove(p1);
    assert(a0.dom().contains(g) && a0.dom().contains(c));
    assert(a0[c].parent == Some(p1));
    let d = choose|d: Map<usize, nat>| ranked(a0, d);
    assert(d[g] < d[p1] && d[p1] < d[c]);
    assert(g != p1 && c != p1 && g != c);
    assert forall|n: usize| #[trigger] kind1.dom().contains(n) implies a1.dom().contains(n) && al.dom().contains(kind1[n]) && (n == t || !a_s.dom().contains(n))
            && a1[n].value.aff.ok() && a1[n].value.aff.mat.ncols() == in_dim && a1[n].value.aff.mat.nrows() == al[kind1[n]].value.aff.mat.nrows()
            && (!a1[n].isleaf ==> !al[kind1[n]].isleaf) by {
        assert(kind.dom().contains(n));
        if n != g && n != c { assert(a1[n] == a0[n]); }
    }
    assert forall|n: usize| #[trigger] pend.contains(n) implies kind1.dom().contains(n) && a1[n].isleaf && no_kids(a1[n]) by {
        assert(n != p1);
        assert(kind.dom().contains(n));
        // a pending copy has no children, so it is not the grandparent
        assert(n != g) by { if n == g { assert(a0[g].children[gl].is_some()); } }
        if n != c { assert(a1[n] == a0[n]); }
    }
    assert forall|n: usize| #[trigger] kind1.dom().contains(n) && !pend.contains(n) implies a1[n].isleaf == al[kind1[n]].isleaf by {
        assert(kind.dom().contains(n) && n != p1);
        if n != g && n != c { assert(a1[n] == a0[n]); }
    }
    assert forall|i: usize| #[trigger] a1.dom().contains(i) implies kind1.dom().contains(i) || (a_s.dom().contains(i) && i != t) by {
        assert(a0.dom().contains(i) && i != p1);
    }
    assert forall|i: usize| #[trigger] a_s.dom().contains(i) && i != t implies a1.dom().contains(i) && !kind1.dom().contains(i) && a1[i].value == a_s[i].value
            && a1[i].isleaf == a_s[i].isleaf && (a_s[i].isleaf ==> a1[i] == a_s[i]) by {
        assert(a0.dom().contains(i) && !kind.dom().contains(i));
        assert(i != p1 && i != c);
        if i == g { assert(!a0[g].isleaf) by { if a0[g].isleaf { assert(no_kids(a0[g])); assert(a0[g].children[gl].is_some()); } } }
        else { assert(a1[i] == a0[i]); }
    }
    assert forall|j: int| 0 <= j < st.len() implies pend.contains((#[trigger] st[j]).1) && kind1[st[j].1] == st[j].0 by { assert(st[j].1 != p1); }
}

// the copy below terminal number t - 1 is finished
pub proof fn lemma_pr_terminal_done<const K: usize>(al: AArena<K>, a0: AArena<K>, a_s: AArena<K>, a: AArena<K>, ts: Seq<usize>, t: int, dl: usize,
    kind: Map<usize, usize>, pend: Set<usize>, in_dim: usize)
    requires 0 < t <= ts.len(), terminals_ok(a0, ts, dl), pr_outer(al, a0, a_s, ts, t - 1),
        pr_inv(al, a, a_s, kind, pend, None, ts[t - 1], in_dim), pr_stack(kind, pend, Seq::<(usize, usize)>::empty()),
    ensures pr_outer(al, a0, a, ts, t)
{
    reveal(pr_inv); reveal(pr_stack); reveal(pr_outer); reveal(terminals_ok);
    let tt = ts[t - 1];
    assert forall|n: usize| !pend.contains(n) by {
        if pend.contains(n) { let j = choose|j: int| 0 <= j < Seq::<(usize, usize)>::empty().len() && (#[trigger] Seq::<(usize, usize)>::empty()[j]).1 == n; }
    }
    assert forall|j: int| t <= j < ts.len() implies a.dom().contains(#[trigger] ts[j]) && a[ts[j]] == a0[ts[j]] by {
        assert(a_s.dom().contains(ts[j]) && a_s[ts[j]] == a0[ts[j]]);
        assert(ts[j] != tt);
        assert(a0[ts[j]].isleaf);
    }
    assert forall|i: usize| a.dom().contains(i) && #[trigger] a[i].isleaf implies
        (a0.dom().contains(i) && a0[i].isleaf && a[i] == a0[i] && (forall|j: int| 0 <= j < t && j < ts.len() ==> ts[j] != i))
        || (exists|p: usize| al.dom().contains(p) && (#[trigger] al[p]).isleaf && a[i].value.aff.mat.nrows() == al[p].value.aff.mat.nrows()) by {
        if kind.dom().contains(i) {
            assert(!pend.contains(i));
            assert(al.dom().contains(kind[i]) && al[kind[i]].isleaf);
        } else {
            assert(a_s.dom().contains(i) && i != tt);
            assert(a_s[i].isleaf && a[i] == a_s[i]);
            if a0.dom().contains(i) && a0[i].isleaf && a_s[i] == a0[i] && (forall|j: int| 0 <= j < t - 1 && j < ts.len() ==> ts[j] != i) {
                assert forall|j: int| 0 <= j < t && j < ts.len() implies ts[j] != i by {}
            }
        }
    }
}

// shape invariant from the bookkeeping
pub proof fn lemma_pr_shape<const K: usize>(al: AArena<K>, a: AArena<K>, a_s: AArena<K>, kind: Map<usize, usize>, pend: Set<usize>, cur: Option<usize>, t: usize, in_dim: usize, dl: usize)
    requires pr_inv(al, a, a_s, kind, pend, cur, t, in_dim), aff_shape_ok(a_s, in_dim), aff_shape_ok(al, dl)
    ensures aff_shape_ok(a, in_dim)
{
    reveal(pr_inv);
    assert forall|i: usize| #![trigger a[i].value] a.dom().contains(i) implies a[i].value.aff.ok() && a[i].value.aff.mat.ncols() == in_dim
        && (!a[i].isleaf ==> 1 <= a[i].value.aff.mat.nrows() < 16 && (1usize << (a[i].value.aff.mat.nrows() as usize)) <= K) by {
        if kind.dom().contains(i) { assert(al.dom().contains(kind[i])); }
        else { assert(a_s.dom().contains(i) && i != t); }
    }
}

// counting the children of a node when one slot changes
pub proof fn lemma_count_set<const K: usize>(ch0: [Option<usize>; K], ch1: [Option<usize>; K], l: int, lo: int)
    requires 0 <= lo <= K, 0 <= l < K, ch0[l].is_none(), ch1[l].is_some(), forall|k: int| 0 <= k < K && k != l ==> ch1[k] == ch0[k]
    ensures count_some_from(ch1, lo) == count_some_from(ch0, lo) + (if lo <= l { 1int } else { 0int })
    decreases K - lo
{
    if lo < K { lemma_count_set(ch0, ch1, l, lo + 1); }
}


// ---- shape bookkeeping for the feasibility test (kept apart from pr_inv so that the big loops only move opaque facts around) ----
// K == 2, hidden from the big loops (a concrete K makes the recursive slot-counting definitions unfold and the proofs unstable)
#[verifier::opaque]
pub open spec fn k_two<const K: usize>() -> bool { K == 2 }
#[verifier::opaque]
pub open spec fn shape_op<const K: usize>(a: AArena<K>, in_dim: usize) -> bool { aff_shape_ok(a, in_dim) }
#[verifier::opaque]
pub open spec fn rows_fit<const K: usize>(n: int) -> bool { 1 <= n < 16 && (1usize << (n as usize)) <= K }
pub proof fn lemma_shape_wrap<const K: usize>(a: AArena<K>, in_dim: usize)
    ensures shape_op(a, in_dim) == aff_shape_ok(a, in_dim)
{ reveal(shape_op); }
// the decision whose children are about to be copied has a row count its branching factor allows
pub proof fn lemma_rows_fit<const K: usize>(al: AArena<K>, dl: usize, p0: usize, n: int)
    requires aff_shape_ok(al, dl), al.dom().contains(p0), !al[p0].isleaf, n == al[p0].value.aff.mat.nrows()
    ensures rows_fit::<K>(n)
{ reveal(rows_fit); }
pub proof fn lemma_shape_add<const K: usize>(a0: AArena<K>, a1: AArena<K>, in_dim: usize, p1: usize, label: usize, c: usize)
    requires shape_op(a0, in_dim), child_added(a0, a1, p1, label, c), a1[p1].value == a0[p1].value, rows_fit::<K>(a0[p1].value.aff.mat.nrows() as int),
        a1[c].value.aff.ok(), a1[c].value.aff.mat.ncols() == in_dim,
    ensures shape_op(a1, in_dim)
{
    reveal(shape_op); reveal(rows_fit);
    assert forall|i: usize| #![trigger a1[i].value] a1.dom().contains(i) implies a1[i].value.aff.ok() && a1[i].value.aff.mat.ncols() == in_dim
        && (!a1[i].isleaf ==> 1 <= a1[i].value.aff.mat.nrows() < 16 && (1usize << (a1[i].value.aff.mat.nrows() as usize)) <= K) by {
        if i == c { } else if i == p1 { } else { assert(a1[i] == a0[i]); }
    }
}
// the value of a terminal is replaced (update_node): shapes stay fine
pub proof fn lemma_shape_write<const K: usize>(a0: AArena<K>, a1: AArena<K>, in_dim: usize, t: usize)
    requires aff_shape_ok(a0, in_dim), same_shape(a0, a1), a0.dom().contains(t), a0[t].isleaf, forall|i: usize| a0.dom().contains(i) && i != t ==> a1[i] == a0[i],
        a1[t].value.aff.ok(), a1[t].value.aff.mat.ncols() == in_dim,
    ensures shape_op(a1, in_dim)
{
    reveal(shape_op);
    assert forall|i: usize| #![trigger a1[i].value] a1.dom().contains(i) implies a1[i].value.aff.ok() && a1[i].value.aff.mat.ncols() == in_dim
        && (!a1[i].isleaf ==> 1 <= a1[i].value.aff.mat.nrows() < 16 && (1usize << (a1[i].value.aff.mat.nrows() as usize)) <= K) by {
        if i != t { assert(a1[i] == a0[i]); } else { assert(a1[t].isleaf == a0[t].isleaf); }
    }
}
// a single-child decision is spliced out
pub proof fn lemma_shape_merge<const K: usize>(a0: AArena<K>, a1: AArena<K>, in_dim: usize, p1: usize, label: usize)
    requires shape_op(a0, in_dim), merge_post(a0, a1, p1, label, false)
    ensures shape_op(a1, in_dim)
{
    reveal(shape_op);
    let gl = choose|gl: int| merged(a0, a1, p1, label, gl);
    let g = a0[p1].parent.unwrap();
    let c = a0[p1].children[label as int].unwrap();
    assert forall|i: usize| #![trigger a1[i].value] a1.dom().contains(i) implies a1[i].value.aff.ok() && a1[i].value.aff.mat.ncols() == in_dim
        && (!a1[i].isleaf ==> 1 <= a1[i].value.aff.mat.nrows() < 16 && (1usize << (a1[i].value.aff.mat.nrows() as usize)) <= K) by {
        assert(a0.dom().contains(i));
        if i != g && i != c { assert(a1[i] == a0[i]); }
    }
}
// ---- end pruned_spec ----
