// unit pwl_elim — C11 / C04 / C03 (tree level): AffTree::infeasible_elimination (src/pwl/impl_infeasible_elim.rs) for EVERY behaviour of the LP layer.
// The traversal mutates the tree it iterates over (states are written, redundant decisions are spliced out, infeasible subtrees are removed by
// forward_if_redundant) while the DFS stack of PolyhedraGen keeps node indices.  Proved, with the LP solver / tolerance test / repair heuristics as
// arbitrary oracles: no index on the stack ever dangles (the `expect("node indicies should stay valid while traversing the tree")` in DfsPre::next and
// every unwrap of the loop body are unreachable), the tree stays well-formed, only cached states change (every surviving node keeps its function,
// no node is added), witnesses stay non-empty.  Not proved here: that the function is preserved (needs soundness of the LP answers: bounded, C03).
use vstd::prelude::*;
use std::marker::PhantomData;
use std::mem;
use std::ops::{Add, Sub, Mul, Div, Neg};
verus! {
global size_of usize == 8;

//@include prelude/inc_pwl_core.rs
//@item src/tree/graph.rs | struct EdgeReference
//@include prelude/inc_tree_nav.rs
//@item src/tree/iter.rs | struct DfsNodeData | derive=Clone,Copy
//@item src/tree/iter.rs | struct EdgeData
//@item src/tree/iter.rs | struct DfsPre | pub-fields
//@include prelude/iter_spec.rs
//@item src/pwl/iter.rs | struct PolyhedraGen | pub-fields | no-debug
//@item src/pwl/impl_infeasible_elim.rs | struct PerformanceCounter | no-debug
//@include prelude/tol_spec.rs
//@include prelude/cat_spec.rs
//@include prelude/lp_oracle_tol_spec.rs
//@include prelude/forward_spec.rs
//@include prelude/reach_spec.rs
//@include prelude/sem_spec.rs
//@include prelude/elim_spec.rs
//@include prelude/sem_elim_spec.rs
//@include prelude/regions_spec.rs
//@include prelude/elim_region_spec.rs
//@include prelude/elim_decided_spec.rs
//@include prelude/wit_core_spec.rs
//@include prelude/wit_edit_spec.rs
//@include prelude/wit_spec.rs

impl DfsNodeData {
//@assumed units/pwl_regions.rs | extract
}
// contracts of the node traversal, proved in unit tree_iter
impl DfsPre {
//@assumed units/tree_iter.rs | new | DfsPre
//@assumed units/tree_iter.rs | next | DfsPre
//@assumed units/tree_iter.rs | skip_subtree | DfsPre
}
impl<N, const K: usize> Tree<N, K> {
// contracts proved in unit tree_graph
//@assumed prelude/inc_tree_edit.rs | try_remove_child
// `DfsPre::iter(self, node).count()`: iterator pipeline, statistics only (the counter); at least the node itself is counted
#[verifier::external_body]
pub fn num_nodes(&self, node: TreeIndex) -> (r: usize)
    requires self.arena@.dom().contains(node)
    ensures r >= 1
{ unimplemented!() }
}

impl PerformanceCounter {
#[verifier::external_body]
pub fn new() -> (r: PerformanceCounter) { unimplemented!() }
}

impl Polytope {
    // LP feasibility query (C10, external solver): any answer
    #[verifier::external_body]
    pub fn status(&self) -> (r: PolytopeStatus)
        ensures r == lp_status(*self)
    { unimplemented!() }
    #[verifier::external_body]
    pub fn contains(&self, point: &Array1<f64>) -> (r: bool)
        ensures r == contains_tol(*self, *point)
    { unimplemented!() }
}
// contract proved on the real body in unit aff_algebra (ndarray::concatenate and the two view pipelines as trusted helpers)
impl<D: Data<Elem = A>, A: Float + LinalgScalar> AffFuncBase<PolytopeT, D> {
//@assumed units/aff_algebra.rs | intersection_n
}

impl PolyhedraGen {
//@fn src/pwl/iter.rs | impl PolyhedraGen | with_root
//@bodysub? predicates: Vec::with_capacity((tree.len() as f64).log2().ceil() as usize), => predicates: Vec::new(),
//@spec
    requires tree.root is Some
    ensures r.iter.stack@ == seq![DfsNodeData { depth: 0, index: root, n_remaining: 0 }], r.iter.last_push == 0,
        r.predicates@.len() == 0, r.last_depth == 0,
//@end
//@fn src/pwl/iter.rs | impl PolyhedraGen | new
//@spec
    requires tree.root is Some
    ensures r.iter.stack@ == seq![DfsNodeData { depth: 0, index: tree.root.unwrap(), n_remaining: 0 }], r.iter.last_push == 0,
        r.predicates@.len() == 0, r.last_depth == 0,
//@end
//@fn src/pwl/iter.rs | impl PolyhedraGen | skip_subtree
//@spec
    ensures skip_step(old(self).iter.stack@, old(self).iter.last_push, final(self).iter.stack@, final(self).iter.last_push),
        final(self).predicates@ == old(self).predicates@, final(self).last_depth == old(self).last_depth,
//@end
//@fn src/pwl/iter.rs | impl PolyhedraGen | current_polytope
//@spec
    ensures r@ == self.predicates@
//@end

// `next` on a tree that is being mutated between the calls: besides the structural step, the bookkeeping invariant of unit pwl_regions (gen_inv: one
// half-space per edge of the path to the last returned node) is kept WITH RESPECT TO THE ORIGINAL ARENA a0, provided the node about to be popped
// still has its original child slots, parent pointer and parent slot (top_agrees)
//@fn src/pwl/iter.rs | impl PolyhedraGen | next
//@sigsub <const K: usize> =>
//@sigsub tree: &Tree<AffContent, K>, => tree: &Tree<AffContent, 2>, Ghost(in_dim): Ghost<usize>, Ghost(a0): Ghost<AArena<2>>, Ghost(path): Ghost<Seq<usize>>,
//@sigsub Option<(DfsNodeData, &Vec<Polytope>)> => Option<DfsNodeData>
//@bodysub Some((data, &self.predicates)) => Some(data)
//@bodysub -1.0, => flit(-1, 1),
//@bodysub 1.0, => flit(1, 1),
//@bodysub &aff.mat * factor => Mul::mul(&aff.mat, factor)
//@bodysub &aff.bias * factor => Mul::mul(&aff.bias, factor)
//@bodysub tree.node_value(edg.source_idx).ok()?.aff => tree.tree_node(edg.source_idx).ok()?.value.aff
//@spec
    requires tree.wf(), stack_ok(tree.arena@, old(self).iter.stack@), preds_ok(old(self).predicates@, in_dim), old(self).last_depth < usize::MAX,
        forall|i: usize| tree.arena@.dom().contains(i) ==> (#[trigger] tree.arena@[i]).value.aff.ok() && tree.arena@[i].value.aff.mat.ncols() == in_dim,
        kids_ok(a0), parents_ok(a0), gen_inv(a0, *old(self), path), top_agrees(tree.arena@, a0, old(self).iter.stack@),
    ensures
        dfs_step(tree.arena@, old(self).iter.stack@, final(self).iter.stack@, final(self).iter.last_push, r),
        preds_ok(final(self).predicates@, in_dim), final(self).last_depth < usize::MAX,
        // a node below the root comes with at least the half-space of its incoming edge
        r matches Some(it) ==> (tree.arena@[it.index].parent is Some ==> final(self).predicates@.len() >= 1),
        r matches Some(it) ==> gen_inv(a0, *final(self), next_path(path, it)) && it.depth <= path.len() && (it.depth == 0 ==> a0[it.index].parent is None),
//@hint start
        let ghost g0 = *self;
        let ghost s_old = self.iter.stack@;
        let ghost preds0 = self.predicates@;
        let ghost ld0 = self.last_depth;
        proof { lemma_gen_facts(a0, g0, path); }
//@hint after let data = self.iter.next(tree)?;
        proof {
            assert(s_old[s_old.len() - 1] == data);
            assert(tree.arena@[data.index].children == a0[data.index].children);
            assert(dfs_step(a0, s_old, self.iter.stack@, self.iter.last_push, Some(data)));
            lemma_anc_step(a0, s_old, self.iter.stack@, self.iter.last_push, data, path);
        }
//@loop 1
                invariant
                    self.predicates@ == preds0.take(if __k <= preds0.len() { preds0.len() - __k } else { 0 }),
                    self.last_depth == ld0, self.iter == old_iter_after,
//@hint before if depth <= self.last_depth {
        let ghost old_iter_after = self.iter;
//@hint after self.last_depth = depth;
        let ghost preds1 = self.predicates@;
        proof {
            assert(preds1.len() == (if depth >= 1 { depth - 1 } else { 0 }));
            assert(preds1 =~= preds0.take(preds1.len() as int));
            assert(preds_ok(preds1, in_dim));
        }
//@hint after self.predicates.push(poly);
            proof {
                broadcast use axiom_array2_shape;
                assert(edge_poly(*aff, edg.label, poly));
                assert(self.predicates@.take(depth - 1) =~= preds0.take(depth - 1));
                assert(depth >= 1);
                assert(edg.source_idx == path[depth - 1]);
                assert(tree.arena@[data.index].parent == Some(edg.source_idx));
                assert(tree.arena@[tree.arena@[data.index].parent.unwrap()].children[edg.label as int] == Some(data.index));
                assert(a0[path[depth - 1]].children[edg.label as int] == Some(data.index));
                assert(a0.dom().contains(path[depth - 1]));
                assert(*aff == a0[path[depth - 1]].value.aff);
                lemma_gen_step(a0, g0, *self, path, data, edg.label);
            }
//@hint end
        proof {
            if depth == 0 { lemma_gen_step(a0, g0, *self, path, data, 0); }
        }
//@end
}

impl NodeState {
//@assumed units/pwl_feasible.rs | is_feasible | impl NodeState
//@assumed units/pwl_feasible.rs | is_infeasible | impl NodeState
}

impl<const K: usize> AffTree<K> {
//@assumed units/pwl_feasible.rs | phase_inh
//@assumed units/pwl_feasible.rs | phase_two
//@assumed units/pwl_forward.rs | forward_if_redundant
// the repair heuristic around mirror_points (numeric code, not under contract): ANY answer among those its code can produce -
// "don't know" or a non-empty list of repaired witnesses (mirror_points returns Some only with at least one column).
// ASSUMED: its shape assertion (cached witnesses have the dimension of the polytope) holds.
#[verifier::external_body]
pub fn phase_one(&self, parent_idx: TreeIndex, poly: &Polytope, counter: &mut PerformanceCounter) -> (r: NodeState)
    requires self.a().dom().contains(parent_idx),
        self.a()[parent_idx].value.state matches NodeState::FeasibleWitness(w) ==> w@.len() > 0,
    ensures r is Indeterminate || (r matches NodeState::FeasibleWitness(v) && v@.len() > 0),
        // ASSUMED (mirror_points re-checks containment on the normalised rows with a margin; only a debug_assert re-checks `contains`; bounded: bc mirror):
        // the repaired points pass the tolerance test of the polytope they were asked for
        r matches NodeState::FeasibleWitness(v) ==> forall|i: int| 0 <= i < v@.len() ==> contains_tol(*poly, #[trigger] v@[i]),
{ unimplemented!() }

//@fn src/pwl/afftree.rs | impl<const K: usize> AffTree<K> | polyhedra
//@spec
    requires self.tree.root is Some
    ensures r.iter.stack@ == seq![DfsNodeData { depth: 0, index: self.tree.root.unwrap(), n_remaining: 0 }], r.iter.last_push == 0,
        r.predicates@.len() == 0, r.last_depth == 0,
//@end

}

// rule G1: verified for binary trees, K = 2 (PolyhedraGen::next panics on labels >= 2, so the function is only usable for K = 2)
impl AffTree<2> {
//@fn src/pwl/impl_infeasible_elim.rs | impl<const K: usize> AffTree<K> | infeasible_elimination
//@bodysub while let Some((data, polyhedra)) = iter.next(&self.tree) { => while let Some(data) = iter.next(&self.tree, Ghost(self.in_dim), Ghost(a0), Ghost(path)) { let polyhedra = iter.current_polytope();
//@bodysub counter.nodes_checked += 1; =>
//@bodysub counter.cached_state += 1; =>
//@bodysub counter.skipped_nodes += self.tree.num_nodes(node_idx) - 1; => let _skipped = self.tree.num_nodes(node_idx) - 1;
//@bodysub let node_value = self.tree.node_value(node_idx).unwrap(); => let node_value = &self.tree.tree_node(node_idx).unwrap().value;
//@bodysub for (label, node) in to_remove { => let mut __j: usize = 0; while __j < to_remove.len() { let (label, node) = to_remove[__j]; __j += 1;
//@spec
    requires old(self).tree.wf(), old(self).tree.root is Some, old(self).a().dom().len() <= i32::MAX,
        vals_ok(old(self).a(), old(self).in_dim), aff_shape_ok(old(self).a(), old(self).in_dim),
    ensures
        // reaching this point at all: none of the unwraps / expects / asserts of the traversal can fire, whatever the LP layer answers
        final(self).tree.wf(), final(self).tree.root == old(self).tree.root, final(self).in_dim == old(self).in_dim,
        // nothing is added, every surviving node keeps its function and its kind - a decision never becomes a terminal - (only cached states change),
        // cached witness lists stay non-empty
        kept_ok(old(self).a(), final(self).a(), old(self).in_dim),
        // C03 (meaning): the denoted function changes at most for inputs whose evaluation IN THE ORIGINAL TREE passes a blamed node; a node is blamed only
        // if it was cached infeasible at entry or the LP layer answered Infeasible for the polytope recorded for it - every other input keeps its value
        // and its undefinedness.  (That this polytope is the node's path region, and that the LP answer is right, is outside this contract.)
        exists|b: Set<usize>, vp: Map<usize, Polytope>| #![trigger blame_ok(old(self).a(), b, vp)] blame_ok(old(self).a(), b, vp)
            // ... and that polytope is satisfied by every input whose evaluation in the original tree passes the node (the half-spaces of its path)
            && (forall|c: usize, h0: Map<usize, nat>| #![trigger vp[c], ranked_down(old(self).a(), h0)] vp.dom().contains(c) && ranked_down(old(self).a(), h0)
                    ==> region_covers(old(self).a(), h0, old(self).tree.root.unwrap(), c, vp[c], old(self).in_dim))
            && forall|h0: Map<usize, nat>, h1: Map<usize, nat>, x: V| #![trigger tree_fn(old(self).a(), h0, old(self).tree.root.unwrap(), x), tree_fn(final(self).a(), h1, old(self).tree.root.unwrap(), x)]
                ranked_down(old(self).a(), h0) && ranked_down(final(self).a(), h1) && !blamed_path(old(self).a(), h0, old(self).tree.root.unwrap(), b, x)
                    ==> tree_fn(final(self).a(), h1, old(self).tree.root.unwrap(), x) == tree_fn(old(self).a(), h0, old(self).tree.root.unwrap(), x),
        // C06 (idempotence): on a tree in which every node the traversal can reach (below the root, no proper ancestor other than the root cached
        // infeasible) already carries a verdict - e.g. the result of a run without LP errors -
        // the elimination changes nothing at all (no LP call is made, no state is written, nothing is removed)
        all_decided(old(self).a(), old(self).tree.root.unwrap()) ==> final(self).a() == old(self).a(),
        // ... and a run during which the LP layer always decides (no Error, every Optimal point inside its polytope) ends in such a tree:
        // together, a second run changes nothing
        lp_decides() ==> all_decided(final(self).a(), old(self).tree.root.unwrap()),
        // C05 (tree level): if at entry every cached witness satisfies, up to the containment tolerance 1e-8, every half-space on the path of its node,
        // then so does every witness cached in the resulting tree - for the paths of the RESULTING tree (decisions spliced out, subtrees removed)
        wit_inv(old(self).a(), old(self).a()) ==> wit_inv(final(self).a(), final(self).a()),
        // COROLLARY - C03 for infeasible_elimination reduced to the soundness of the LP layer: if every Infeasible LP answer is right and no input reaches
        // a node cached infeasible at entry, the function is unchanged for EVERY input of the tree's dimension
        lp_sound(old(self).in_dim) && entry_marks_sound(old(self).a(), old(self).tree.root.unwrap()) ==>
            forall|h0: Map<usize, nat>, h1: Map<usize, nat>, x: V| #![trigger tree_fn(old(self).a(), h0, old(self).tree.root.unwrap(), x), tree_fn(final(self).a(), h1, old(self).tree.root.unwrap(), x)]
                ranked_down(old(self).a(), h0) && ranked_down(final(self).a(), h1) && x.len() == old(self).in_dim
                    ==> tree_fn(final(self).a(), h1, old(self).tree.root.unwrap(), x) == tree_fn(old(self).a(), h0, old(self).tree.root.unwrap(), x),
//@hint loop 1 before
        let ghost a0 = self.a();
        let ghost d0 = self.a().dom();
        let ghost root = self.tree.root.unwrap();
        let ghost mut vis: Set<usize> = Set::<usize>::empty();
        let ghost mut g_stack: Seq<DfsNodeData> = iter.iter.stack@;
        let ghost hs = choose|h: Map<usize, nat>| ranked_down(a0, h);
        let ghost mut b: Set<usize> = a0.dom().filter(|c: usize| a0[c].value.state is Infeasible);
        let ghost mut vp: Map<usize, Polytope> = Map::<usize, Polytope>::empty();
        let ghost mut path: Seq<usize> = Seq::<usize>::empty();
        proof {
            lemma_el_init(self.a(), root); lemma_sem_init(a0, hs, root); lemma_kd_init(self.a(), root);
            lemma_gen_init(a0, iter, root);
            lemma_reg_init(a0, root);
            lemma_top_agrees(a0, self.a(), root, g_stack, vis, root, d0, self.in_dim);
            lemma_dec_from_shape(a0, self.in_dim);
            lemma_wc_init(a0);
        }
//@loop 1
            invariant_except_break
                gen_inv(a0, iter, path),
            invariant
                self.in_dim == old(self).in_dim, self.tree.root == Some(root), old(self).tree.root == Some(root),
                a0 == old(self).a(), d0 == a0.dom(), d0.len() <= i32::MAX,
                g_stack == iter.iter.stack@,
                el_inv(self.a(), root, g_stack, vis, root, d0),
                kept_ok(a0, self.a(), self.in_dim),
                // (consequences of the two lines above, needed where the loop condition calls `next`)
                self.tree.wf(), stack_ok(self.a(), g_stack), vals_ok(self.a(), self.in_dim),
                preds_ok(iter.predicates@, self.in_dim), iter.last_depth < usize::MAX,
                forall|j: int| 0 <= j < to_remove@.len() ==> (#[trigger] to_remove@[j]).0 < 2,
                ranked_down(a0, hs), dec_one_row(a0), sem_inv(a0, hs, self.a(), root, b), blame_ok(a0, b, vp), tr_ok(self.a(), to_remove@, vis),
                // the reported half-spaces are those of the path in the ORIGINAL tree
                wf_at(a0, Some(root)), aff_shape_ok(a0, self.in_dim), kids_ok(a0), parents_ok(a0), reg_inv(a0, self.a(), g_stack, vis), top_agrees(self.a(), a0, g_stack),
                path.len() > 0 ==> path[0] == root,
                regions_ok(a0, hs, root, vp, self.in_dim),
                all_decided(a0, root) ==> self.a() == a0 && to_remove@.len() == 0,
                kids_inv(self.a(), root, g_stack, vis, None), dec_inv(self.a(), root, vis, None),
                wit_cond(a0, self.a()), emb_inv(a0, self.a()),
            ensures g_stack.len() == 0,
            decreases d0.len() - vis.len()
//@hint loop 1 start
            let ghost s0 = g_stack;
            let ghost vis0 = vis;
            let ghost s1 = iter.iter.stack@;
            let ghost lp1 = iter.iter.last_push;
            let ghost mut s_cur = s1;
            let ghost tr0 = to_remove@;
            proof {
                lemma_el_next(self.a(), root, s0, s1, lp1, data, vis0, d0);
                vis = vis0.insert(data.index);
                lemma_tr_mono(self.a(), tr0, vis0, vis);
                lemma_el_clean_above(self.a(), root, s1, vis, d0, data.index);
                lemma_kd_next(self.a(), root, s0, s1, lp1, data, vis0);
                lemma_el_parent_visited(self.a(), root, s1, vis, data.index, d0, data.index);
                assert(a0.dom().contains(data.index));
                lemma_reg_next(a0, self.a(), root, s0, s1, lp1, data, vis0, d0);
                let p1 = next_path(path, data);
                assert(p1.len() > 0 && p1[0] == root && p1.last() == data.index) by {
                    if data.depth == 0 { assert(a0[data.index].parent is None); } else { assert(p1[0] == path[0]); }
                }
                path = p1;
                assert(s0.len() > 0 && s0.last() == data);
                assert(self.a()[data.index].parent == a0[data.index].parent);
                assert(data.depth == 0 ==> data.index == root);
            }
            let ghost g_next = iter;
//@hint before#1 continue;
                proof {
                    lemma_kd_settle_keep(self.a(), root, s0, s1, lp1, data, vis);
                    lemma_el_settle(self.a(), root, s1, vis, data.index, d0);
                    g_stack = s1;
                    lemma_el_stack_ok(self.a(), root, g_stack, vis, root, d0);
                    lemma_top_agrees(a0, self.a(), root, g_stack, vis, root, d0, self.in_dim);
                }
//@hint after#1 iter.skip_subtree();
                    proof {
                        let s2 = iter.iter.stack@;
                        lemma_el_skip(self.a(), root, s0, s1, lp1, data, s2, iter.iter.last_push, vis0, d0);
                        lemma_kd_skip_step(self.a(), root, s0, s1, lp1, data, s2, iter.iter.last_push, vis0, d0);
                        lemma_kd_settle_skipped(self.a(), root, s2, vis, data.index);
                        lemma_el_settle(self.a(), root, s2, vis, data.index, d0);
                        g_stack = s2;
                        lemma_el_stack_ok(self.a(), root, g_stack, vis, root, d0);
                        lemma_reg_skip(a0, self.a(), s1, lp1, s2, iter.iter.last_push, vis);
                        lemma_gen_skip(a0, g_next, iter, path);
                        lemma_top_agrees(a0, self.a(), root, g_stack, vis, root, d0, self.in_dim);
                    }
//@hint before#3 continue;
                    proof {
                        lemma_kd_settle_keep(self.a(), root, s0, s1, lp1, data, vis);
                        lemma_el_settle(self.a(), root, s1, vis, data.index, d0);
                        g_stack = s1;
                        lemma_el_stack_ok(self.a(), root, g_stack, vis, root, d0);
                        lemma_top_agrees(a0, self.a(), root, g_stack, vis, root, d0, self.in_dim);
                    }
//@hint after let poly = Polytope::intersection_n(self.in_dim(), polyhedra.as_slice());
            proof {
                assert(path.last() == node_idx);
                lemma_region_covers(a0, hs, root, iter, path, poly, self.in_dim);
                lemma_tol_parts(poly, iter.predicates@);
            }
//@hint after let mut state = self.phase_inh(
            proof { lemma_wc_inh(a0, self.a(), iter, path, parent_idx, *hyperplane, state); }
//@hint after state = self.phase_one(
                proof { lemma_wit_poly(a0, iter, path, root, poly, state); }
//@hint after state = self.phase_two(
                proof { lemma_wit_poly(a0, iter, path, root, poly, state); }
//@hint after to_remove.push((label, parent_idx));
                proof {
                    assert forall|j: int| 0 <= j < to_remove@.len() implies (#[trigger] to_remove@[j]).0 < 2 by {
                        if j < to_remove@.len() - 1 { assert(to_remove@[j] == to_remove@.drop_last()[j]); }
                    }
                }
//@hint after#2 iter.skip_subtree();
                proof {
                    s_cur = iter.iter.stack@;
                    lemma_el_skip(self.a(), root, s0, s1, lp1, data, s_cur, iter.iter.last_push, vis0, d0);
                    lemma_kd_skip_step(self.a(), root, s0, s1, lp1, data, s_cur, iter.iter.last_push, vis0, d0);
                    lemma_reg_skip(a0, self.a(), s1, lp1, s_cur, iter.iter.last_push, vis);
                    lemma_gen_skip(a0, g_next, iter, path);
                }
//@hint before let node_value = self.tree.node_value_mut(node_idx).unwrap();
            let ghost a_b = self.a();
            let ghost skipped = state is Infeasible;
//@hint after node_value.state = state;
            proof {
                assert(value_written(a_b, self.a(), node_idx));
                lemma_el_write(a_b, self.a(), root, s_cur, vis, node_idx, d0);
                lemma_kept_write(a0, a_b, self.a(), self.in_dim, node_idx);
                lemma_el_settle(self.a(), root, s_cur, vis, node_idx, d0);
                lemma_el_stack_ok(self.a(), root, s_cur, vis, root, d0);
                // meaning: a new Infeasible mark is an LP verdict for `poly`
                lemma_sem_write(a0, hs, a_b, self.a(), root, b, node_idx);
                if skipped {
                    assert(lp_status(poly) is Infeasible);
                    b = b.insert(node_idx);
                    vp = vp.insert(node_idx, poly);
                }
                lemma_reg_write(a0, a_b, self.a(), s_cur, vis, node_idx);
                lemma_kd_write(a_b, self.a(), root, s_cur, vis, node_idx);
                if skipped { lemma_kd_settle_skipped(self.a(), root, s_cur, vis, node_idx); }
                else {
                    assert(self.a()[node_idx].children == a_b[node_idx].children);
                    assert(dfs_step(self.a(), s0, s1, lp1, Some(data)));
                    assert(self.a()[node_idx].value.state is Indeterminate ==> !lp_decides());
                    lemma_kd_settle_keep(self.a(), root, s0, s1, lp1, data, vis);
                }
                lemma_tr_write(a_b, self.a(), tr0, vis0, node_idx, skipped, label, parent_idx);
                lemma_wc_write(a0, a_b, self.a(), node_idx);
                assert(to_remove@ =~= (if skipped { tr0.push((label, parent_idx)) } else { tr0 }));
            }
//@hint before self.forward_if_redundant(parent_idx);
                let ghost a_f = self.a();
//@hint after self.forward_if_redundant(parent_idx);
                proof {
                    lemma_fwd_pruned(a_f, self.a(), root, parent_idx);
                    lemma_el_parent_clean(a_f, root, s_cur, vis, d0, node_idx, parent_idx);
                    lemma_dec_kept(a0, a_f, self.in_dim);
                    lemma_sem_forward(a0, hs, a_f, self.a(), root, b, parent_idx);
                    lemma_tr_forward(a_f, self.a(), to_remove@, vis, root, parent_idx);
                    lemma_el_forward(a_f, self.a(), root, s_cur, vis, d0, parent_idx);
                    lemma_kept_pruned(a0, a_f, self.a(), self.in_dim, parent_idx, root);
                    lemma_el_parent_visited(a_f, root, s_cur, vis, root, d0, parent_idx);
                    lemma_kd_forward(a_f, self.a(), root, s_cur, vis, parent_idx);
                    lemma_fwd_slots(a_f, self.a(), root, parent_idx);
                    lemma_reg_forward(a0, a_f, self.a(), root, s_cur, vis, d0, parent_idx);
                    lemma_wc_forward(a0, a_f, self.a(), root, parent_idx);
                }
//@hint loop 1 end
            proof {
                g_stack = s_cur;
                lemma_el_stack_ok(self.a(), root, g_stack, vis, root, d0);
                lemma_top_agrees(a0, self.a(), root, g_stack, vis, root, d0, self.in_dim);
            }
//@hint loop 1 after
        proof {
            lemma_el_stack_ok(self.a(), root, g_stack, vis, root, d0);
            assert(g_stack =~= Seq::<DfsNodeData>::empty());
        }
//@loop 2 contract
            invariant
                self.in_dim == old(self).in_dim, self.tree.root == Some(root), self.tree.wf(),
                kept_ok(a0, self.a(), self.in_dim), a0 == old(self).a(), a0.dom().len() <= i32::MAX,
                0 <= __j <= to_remove@.len(),
                forall|j: int| 0 <= j < to_remove@.len() ==> (#[trigger] to_remove@[j]).0 < 2,
                ranked_down(a0, hs), dec_one_row(a0), sem_inv(a0, hs, self.a(), root, b), blame_ok(a0, b, vp), tr_ok(self.a(), to_remove@, vis),
                regions_ok(a0, hs, root, vp, self.in_dim), wf_at(a0, Some(root)),
                all_decided(a0, root) ==> self.a() == a0 && to_remove@.len() == 0,
                kids_inv(self.a(), root, Seq::<DfsNodeData>::empty(), vis, None), dec_inv(self.a(), root, vis, None),
                wit_cond(a0, self.a()), emb_inv(a0, self.a()),
            decreases to_remove@.len() - __j
//@hint loop 2 after
        proof {
            lemma_sem_final(a0, hs, self.a(), root, b); lemma_regions_final(a0, hs, root, vp, self.in_dim);
            if lp_sound(self.in_dim) && entry_marks_sound(a0, root) { lemma_unconditional(a0, self.a(), root, b, vp, self.in_dim); }
            if lp_decides() { lemma_kd_final(self.a(), root, vis); }
            lemma_wc_final(a0, self.a());
        }
//@hint before let _ = self.tree.try_remove_child(node, label);
                let ghost a_r = self.a();
                proof { vstd::set_lib::lemma_len_subset(a_r.dom(), a0.dom()); }
//@hint after let _ = self.tree.try_remove_child(node, label);
                proof {
                    let e = !(a_r.dom().contains(node) && a_r[node].children[label as int] is Some);
                    lemma_dec_kept(a0, a_r, self.in_dim);
                    if !e {
                        assert(to_remove@[__j as int - 1] == (label, node));
                        lemma_sem_remove(a0, hs, a_r, self.a(), root, b, node, label);
                    }
                    lemma_tr_remove(a_r, self.a(), to_remove@, vis, node, label, e);
                    lemma_kd_remove(a_r, self.a(), root, vis, node, label, e);
                    lemma_kept_removed(a0, a_r, self.a(), self.in_dim, node, label, e);
                    lemma_wc_removed(a0, a_r, self.a(), node, label, e);
                }
//@end
}

} // verus!
fn main() {}
