//! Bounded contract replay: C09 (regions vs evaluation), C11 (LP faults), C15 (constraint clean-up).
#![allow(deprecated)]
use affinitree::linalg::affine::Polytope;
use affinitree::pwl::afftree::AffTree;

use crate::c_pwl::same_function;
use crate::fm::{feasible, interior_nonempty, same_set, Row};
use crate::gen::*;
use crate::q::{qs, Q};
use crate::report::*;
use crate::xtree::*;

fn poly_rows(p: &Polytope) -> Option<Vec<Row>> {
    let mut rows = vec![];
    for i in 0..p.mat.shape()[0] {
        let a: Option<Vec<Q>> = (0..p.mat.shape()[1]).map(|j| Q::from_f64(p.mat[[i, j]])).collect();
        rows.push(Row::le(a?, Q::from_f64(p.bias[i])?));
    }
    Some(rows)
}

// ------------------------------------------------------------------------------------------ C09

fn preorder(t: &XTree, s: usize) -> Vec<(usize, usize, usize)> {
    fn rec(t: &XTree, i: usize, d: usize, rem: usize, out: &mut Vec<(usize, usize, usize)>) {
        out.push((d, i, rem));
        let kids: Vec<usize> = t.nodes[&i].children.iter().flatten().cloned().collect();
        for (j, c) in kids.iter().enumerate() {
            rec(t, *c, d + 1, kids.len() - 1 - j, out);
        }
    }
    let mut out = vec![];
    rec(t, s, 0, 0, &mut out);
    out
}

fn is_desc(t: &XTree, anc: usize, i: usize) -> bool {
    let mut cur = i;
    while let Some(p) = t.nodes[&cur].parent {
        if p == anc {
            return true;
        }
        cur = p;
    }
    false
}

fn flat_rows(polys: &[Polytope]) -> Option<Vec<Row>> {
    let mut r = vec![];
    for p in polys {
        r.extend(poly_rows(p)?);
    }
    Some(r)
}

pub fn regions(rep: &mut Report, tier: Tier) {
    let (n, reps) = if tier == Tier::Quick { (3, 2) } else { (4, 3) };
    rep.rule = "binary trees (total/partial, scrambled arena indices): polyhedra() and polyhedra_iter() streams vs reference pre-order (depth, index, remaining siblings) and vs the closed path polytope computed from path_to_node, for every skip_subtree position (single and repeated request); find_terminal/evaluate vs exact routing on every lattice point and on points 2^-30 off every hyperplane (labels = path of the returned leaf, x satisfies every reported path condition), interior points are routed through the node, terminal regions have disjoint interiors, total trees cover the lattice; non-trivial: tree has >= 2 decisions".into();
    rep.bound = format!("shapes with <= {n} decisions x {reps} assignment(s), dims in {{1,2}}, lattice [-3,3]^d step 1/2, all skip positions");
    let sh = shapes(2, n, true);
    let mut idx = 0u64;
    for s in &sh {
        for r in 0..reps {
            idx += 1;
            if rep.skip(idx) {
                continue;
            }
            let mut rng = Rng::new(rep.seed ^ (idx * 1299709 + r as u64));
            let d = 1 + rng.below(2);
            let t = build::<2>(&mut rng, s, d, 1, false, true);
            let x = xtree(&t).unwrap();
            let descr = x.descr();
            rep.evaluations += 1;
            if s.decisions() >= 2 {
                rep.nontrivial(&descr);
            }
            rep.sample(descr.clone());
            let want = preorder(&x, x.root);
            // 1/3: generator stream with every skip position
            for (skip_at, repeat) in (0..=want.len()).flat_map(|s| [(s, 1usize), (s, 2usize)]) {
                let mut it = t.polyhedra();
                let mut seen = vec![];
                let mut expect = want.clone();
                let mut pos = 0;
                while let Some((data, polys)) = it.next(&t.tree) {
                    let item = data.extract();
                    seen.push(item);
                    pos += 1;
                    match flat_rows(polys) {
                        None => rep.viol(idx, "stream", format!("non-finite predicate | {descr}")),
                        Some(rows) => {
                            let ref_rows = x.closed_region(item.1);
                            if rows != ref_rows {
                                rep.viol(idx, "path-polytope", format!("node {} (skip_at={skip_at}): reported path conditions {:?} differ from the path {:?} | {descr}", item.1, rows, ref_rows));
                            }
                        }
                    }
                    if seen.len() == skip_at {
                        for _ in 0..repeat {
                            it.skip_subtree();
                        }
                        let last = item.1;
                        let head: Vec<_> = expect[..pos].to_vec();
                        let tail: Vec<_> = expect[pos..].iter().filter(|q| !is_desc(&x, last, q.1)).cloned().collect();
                        expect = head;
                        expect.extend(tail);
                    }
                    if seen.len() > want.len() + 2 {
                        break;
                    }
                }
                if seen != expect {
                    rep.viol(idx, "stream", format!("polyhedra() with skip_subtree x{repeat} after item {skip_at}: got {seen:?} want {expect:?} | {descr}"));
                }
            }
            // 2: iterator wrapper incl. size_hint
            let mut it = t.polyhedra_iter();
            let mut k = 0;
            loop {
                let (lb, ub) = it.size_hint();
                let remaining = want.len() - k;
                if lb > remaining || ub.map_or(false, |u| u < remaining) {
                    rep.viol(idx, "size-hint", format!("polyhedra_iter after {k} items: size_hint ({lb},{ub:?}) does not bracket {remaining} | {descr}"));
                    break;
                }
                match it.next() {
                    None => break,
                    Some((dp, i, rem, polys)) => {
                        if k >= want.len() || (dp, i, rem) != want[k] {
                            rep.viol(idx, "stream", format!("polyhedra_iter item {k}: got {:?} | {descr}", (dp, i, rem)));
                            break;
                        }
                        if flat_rows(&polys).map_or(true, |r| r != x.closed_region(i)) {
                            rep.viol(idx, "path-polytope", format!("polyhedra_iter node {i}: wrong path conditions | {descr}"));
                        }
                        k += 1;
                    }
                }
            }
            // 4/5/7: evaluation vs regions on the lattice
            let total = s.is_total();
            // lattice points, plus points a hair (2^-30) off every hyperplane on its strict side: the routing test is exact, it has no tolerance
            let mut points = lattice(d);
            let eps = Q::new(1, 1 << 30);
            for (_, nd) in &x.nodes {
                if nd.isleaf {
                    continue;
                }
                for (row, b) in nd.aff.mat.iter().zip(nd.aff.bias.iter()) {
                    if let Some(i) = row.iter().position(|c| !c.is_zero()) {
                        for p in lattice(d) {
                            if crate::q::dot(row, &p) == *b {
                                let mut q = p.clone();
                                q[i] = q[i] + if row[i] > Q::ZERO { eps } else { Q::ZERO - eps };
                                points.push(q);
                            }
                        }
                    }
                }
            }
            points.sort_by(|a, b| format!("{a:?}").cmp(&format!("{b:?}")));
            points.dedup();
            for pnt in points {
                let (route, leaf) = x.route(&pnt);
                let arr = to_arr(&pnt);
                let got = t.find_terminal(t.tree.get_root(), &arr);
                match (&got, leaf) {
                    (None, None) => {}
                    (Some((node, labels)), Some(l)) => {
                        let real = t.tree.tree_node(l).unwrap();
                        if !std::ptr::eq(*node, real) {
                            rep.viol(idx, "find-terminal", format!("find_terminal at x={} returned a different terminal than exact routing ({l}) | {descr}", qs(&pnt)));
                        }
                        let path: Vec<usize> = t.tree.path_to_node(l).unwrap().iter().map(|p| p.1).collect();
                        if &path != labels {
                            rep.viol(idx, "find-terminal", format!("find_terminal at x={}: labels {labels:?} but the path of terminal {l} is {path:?} | {descr}", qs(&pnt)));
                        }
                    }
                    _ => rep.viol(idx, "find-terminal", format!("find_terminal at x={}: definedness differs from exact routing (leaf {leaf:?}) | {descr}", qs(&pnt))),
                }
                // x satisfies the reported conditions of every node on its route
                for nidx in &route {
                    for rw in x.closed_region(*nidx) {
                        if !rw.holds(&pnt) {
                            rep.viol(idx, "route-in-region", format!("x={} is routed through node {nidx} but violates its reported path condition | {descr}", qs(&pnt)));
                        }
                    }
                }
                // evaluate agrees with the exact value (all intermediates are exactly representable)
                let ev = t.evaluate(&arr);
                let ex = x.eval(&pnt);
                let same = match (&ev, &ex) {
                    (None, None) => true,
                    (Some(a), Some(b)) => a.len() == b.len() && a.iter().zip(b.iter()).all(|(u, v)| Q::from_f64(*u) == Some(*v)),
                    _ => false,
                };
                if !same {
                    rep.viol(idx, "evaluate", format!("evaluate at x={} = {ev:?}, exact {:?} | {descr}", qs(&pnt), ex.map(|v| qs(&v))));
                }
                if total && leaf.is_none() {
                    rep.viol(idx, "cover", format!("total tree undefined at x={} | {descr}", qs(&pnt)));
                }
                // interior points of a node's region are routed through the node
                for (nidx, _) in &x.nodes {
                    let reg = x.closed_region(*nidx);
                    if reg.iter().all(|rw| Row { strict: true, ..rw.clone() }.holds(&pnt)) && !route.contains(nidx) {
                        rep.viol(idx, "interior-route", format!("x={} lies strictly inside the region of node {nidx} but is not routed through it | {descr}", qs(&pnt)));
                    }
                }
            }
            // 6: terminal regions have disjoint interiors
            let leaves = x.leaves();
            for a in 0..leaves.len() {
                for b in a + 1..leaves.len() {
                    let mut rows = x.closed_region(leaves[a]);
                    rows.extend(x.closed_region(leaves[b]));
                    if interior_nonempty(&rows, d) {
                        rep.viol(idx, "overlap", format!("terminals {} and {} have overlapping interiors | {descr}", leaves[a], leaves[b]));
                    }
                }
            }
        }
    }
}

// ------------------------------------------------------------------------------------------ C15

fn rows_f64(p: &Polytope) -> Vec<(Vec<f64>, f64)> {
    (0..p.mat.shape()[0]).map(|i| (p.mat.row(i).to_vec(), p.bias[i])).collect()
}

fn is_subsequence(small: &[(Vec<f64>, f64)], big: &[(Vec<f64>, f64)]) -> bool {
    let mut j = 0;
    for r in small {
        while j < big.len() && &big[j] != r {
            j += 1;
        }
        if j == big.len() {
            return false;
        }
        j += 1;
    }
    true
}

fn gen_system(rng: &mut Rng, d: usize, nrows: usize) -> (Vec<Vec<f64>>, Vec<f64>) {
    let mut rows: Vec<Vec<f64>> = vec![];
    let mut bias: Vec<f64> = vec![];
    for i in 0..nrows {
        let kind = rng.below(8);
        if i > 0 && kind == 0 {
            // duplicate
            let j = rng.below(i);
            rows.push(rows[j].clone());
            bias.push(bias[j]);
        } else if i > 0 && kind == 1 {
            // positive multiple
            let j = rng.below(i);
            let f = *rng.pick(&[2.0, 0.5, 4.0]);
            rows.push(rows[j].iter().map(|v| v * f).collect());
            bias.push(bias[j] * f);
        } else if i > 0 && kind == 2 {
            // parallel with different bias
            let j = rng.below(i);
            rows.push(rows[j].clone());
            bias.push(bias[j] + *rng.pick(&[-1.0, 1.0, 0.5]));
        } else if i > 0 && kind == 3 {
            // opposite (equality pair / contradiction)
            let j = rng.below(i);
            rows.push(rows[j].iter().map(|v| -v).collect());
            bias.push(-bias[j] + *rng.pick(&[0.0, 0.0, 1.0, -1.0]));
        } else if kind == 4 {
            // zero row; IEEE negative zeros occur naturally when a >= system is negated
            rows.push(vec![*rng.pick(&[0.0, -0.0]); d]);
            bias.push(*rng.pick(&[-1.0, 0.0, -0.0, 1.0]));
        } else {
            let (r, b) = pred_row(rng, d);
            rows.push(r);
            bias.push(b * *rng.pick(&[1.0, 2.0]));
        }
    }
    (rows, bias)
}

pub fn cleanup(rep: &mut Report, tier: Tier) {
    let cases = if tier == Tier::Quick { 6000 } else { 150000 };
    rep.rule = "constraint systems with duplicated, positively scaled, parallel, opposite (equality / contradictory) and zero rows; for remove_tautologies, remove_duplicate_rows, remove_redundant_row_constraints, normalize, remove_zero_rows, remove_rows: exact two-way set inclusion (Fourier–Motzkin), rows of the result form a subsequence of the input (up to positive scaling for normalize; canonical empty/unbounded allowed where documented), and no row left by remove_redundant_row_constraints is implied by the others with a margin; non-trivial: the function dropped at least one row".into();
    rep.bound = format!("{cases} seeded systems, 1..=4 rows, dims in {{1,2}}");
    for idx in 1..=cases as u64 {
        if rep.skip(idx) {
            continue;
        }
        let mut rng = Rng::new(rep.seed ^ (idx * 6700417));
        let d = 1 + rng.below(2);
        let nrows = 1 + rng.below(4);
        let (rows, bias) = gen_system(&mut rng, d, nrows);
        let p = poly(&rows, &bias, d);
        let descr = format!("rows={rows:?} bias={bias:?}");
        let inp = poly_rows(&p).unwrap();
        let inp_f = rows_f64(&p);
        rep.evaluations += 6;
        if idx < 4 {
            rep.sample(descr.clone());
        }
        let canonical_empty = |q: &Polytope| q.mat.shape()[0] == 1 && q.mat.iter().all(|v| *v == 0.0) && q.bias[0] == -1.0;
        let canonical_full = |q: &Polytope| q.mat.shape()[0] == 1 && q.mat.iter().all(|v| *v == 0.0) && q.bias[0] == 1.0;
        let mut check = |rep: &mut Report, name: &str, q: &Polytope, allow_canon: bool| {
            let out = match poly_rows(q) {
                Some(o) => o,
                None => {
                    rep.viol(idx, name, format!("{name}: non-finite result | {descr}"));
                    return;
                }
            };
            if q.mat.shape()[1] != d {
                rep.viol(idx, name, format!("{name}: dimension changed | {descr}"));
                return;
            }
            if !same_set(&inp, &out, d) {
                rep.viol(idx, name, format!("{name} changed the point set: result {:?} | {descr}", rows_f64(q)));
            }
            let of = rows_f64(q);
            if !is_subsequence(&of, &inp_f) {
                let canon = allow_canon && ((canonical_empty(q) && !feasible(&inp, d)) || (canonical_full(q)));
                if !canon {
                    rep.viol(idx, name, format!("{name}: result rows {:?} are not a subsequence of the input | {descr}", of));
                }
            }
            if of.len() < inp_f.len() {
                rep.nontrivial(&format!("{name}{descr}"));
            }
        };
        match guarded(|| p.remove_tautologies()) {
            Ok(q) => check(rep, "remove_tautologies", &q, true),
            Err(e) => rep.viol(idx, "panic", format!("remove_tautologies panicked: {e} | {descr}")),
        }
        match guarded(|| p.remove_duplicate_rows()) {
            Ok(q) => check(rep, "remove_duplicate_rows", &q, false),
            Err(e) => rep.viol(idx, "panic", format!("remove_duplicate_rows panicked: {e} | {descr}")),
        }
        match guarded(|| p.remove_zero_rows()) {
            Ok(q) => {
                if q.mat.shape()[0] == 0 {
                    // all rows were 0.x <= 0: the empty system denotes the whole space
                    if !same_set(&inp, &[], d) {
                        rep.viol(idx, "remove_zero_rows", format!("remove_zero_rows dropped every row of a restricted set | {descr}"));
                    }
                } else {
                    check(rep, "remove_zero_rows", &q, false)
                }
            }
            Err(e) => rep.viol(idx, "panic", format!("remove_zero_rows panicked: {e} | {descr}")),
        }
        match guarded(|| p.remove_redundant_row_constraints()) {
            Ok(Ok(q)) => {
                check(rep, "remove_redundant_row_constraints", &q, true);
                if let Some(out) = poly_rows(&q).filter(|_| q.mat.shape()[1] == d) {
                    if feasible(&out, d) {
                        for i in 0..out.len() {
                            let mut others: Vec<Row> = out.iter().enumerate().filter(|(j, _)| *j != i).map(|(_, r)| r.clone()).collect();
                            // others && a_i.x >= b_i  infeasible  <=>  row i is implied with a margin
                            others.push(Row::le(out[i].a.iter().map(|v| -*v).collect(), -out[i].b));
                            if !feasible(&others, d) && out.len() > 1 {
                                // diagnose by replaying the function's own LP queries: did the LP layer answer "unbounded"
                                // for a row whose maximum over the rows considered at that time is finite?
                                let mut redundant: Vec<usize> = vec![];
                                let mut lied = vec![];
                                for k in (0..nrows).rev() {
                                    let mut ind = redundant.clone();
                                    ind.push(k);
                                    ind.reverse();
                                    let rest = p.remove_rows(ind.clone());
                                    let st = rest.solve_linprog(-p.mat.row(k).to_owned(), false);
                                    match &st {
                                        affinitree::linalg::polyhedron::PolytopeStatus::Optimal(pt) => {
                                            if p.mat.row(k).dot(pt) <= p.bias[k] + f64::EPSILON {
                                                redundant.push(k);
                                            }
                                        }
                                        affinitree::linalg::polyhedron::PolytopeStatus::Unbounded => {
                                            let mut rr = poly_rows(&rest).unwrap();
                                            rr.push(Row::le(inp[k].a.iter().map(|v| -*v).collect(), Q::int(-1_000_000)));
                                            if !feasible(&rr, d) {
                                                lied.push(k);
                                            }
                                        }
                                        _ => {}
                                    }
                                }
                                let kept: Vec<usize> = (0..nrows).filter(|k| !redundant.contains(k)).collect();
                                let orig = kept.get(i).cloned();
                                let class = if orig.map_or(false, |o| lied.contains(&o)) { "redundant-leftover-lp-unbounded" } else { "redundant-leftover" };
                                rep.viol(idx, class, format!("row {i} of the result {:?} is implied by the others with a margin (rows for which solve_linprog answered Unbounded although the maximum is finite: {lied:?}) | {descr}", rows_f64(&q)));
                            }
                        }
                    }
                }
            }
            Ok(Err(msg)) => rep.notes.push(format!("remove_redundant_row_constraints returned Err({msg}) on {descr}")),
            Err(e) => rep.viol(idx, "panic", format!("remove_redundant_row_constraints panicked: {e} | {descr}")),
        }
        match guarded(|| p.clone().normalize()) {
            Ok(q) => {
                let of = rows_f64(&q);
                if of.len() != inp_f.len() {
                    rep.viol(idx, "normalize", format!("normalize changed the number of rows | {descr}"));
                } else {
                    for i in 0..of.len() {
                        let norm: f64 = inp_f[i].0.iter().map(|v| v * v).sum::<f64>().sqrt();
                        let f = if norm > f64::EPSILON { norm } else { 1.0 };
                        let ok = (0..d).all(|j| (of[i].0[j] * f - inp_f[i].0[j]).abs() < 1e-12) && (of[i].1 * f - inp_f[i].1).abs() < 1e-12;
                        if !ok {
                            rep.viol(idx, "normalize", format!("normalize: row {i} = {:?} is not the input row divided by its norm | {descr}", of[i]));
                        }
                    }
                }
            }
            Err(e) => rep.viol(idx, "panic", format!("normalize panicked: {e} | {descr}")),
        }
        // remove_rows with an ascending index list
        let mut drop: Vec<usize> = (0..nrows).filter(|_| rng.chance(1, 3)).collect();
        drop.dedup();
        match guarded(|| p.remove_rows(drop.clone())) {
            Ok(q) => {
                let want: Vec<(Vec<f64>, f64)> = inp_f.iter().enumerate().filter(|(i, _)| !drop.contains(i)).map(|(_, r)| r.clone()).collect();
                if rows_f64(&q) != want {
                    rep.viol(idx, "remove_rows", format!("remove_rows({drop:?}) = {:?} want {want:?} | {descr}", rows_f64(&q)));
                }
            }
            Err(e) => rep.viol(idx, "panic", format!("remove_rows({drop:?}) panicked: {e} | {descr}")),
        }
    }
}

// ------------------------------------------------------------------------------------------ C11

#[cfg(affinitree_verif)]
pub fn faults(rep: &mut Report, tier: Tier) {
    use affinitree::linalg::polyhedron::verif_hook::{self, Fault};
    let (n, reps, pairs) = if tier == Tier::Quick { (3, 1, false) } else { (4, 1, true) };
    rep.rule = "trees with infeasible paths x every LP call position of the fault-free run x fault kinds {Error, Unbounded, witness+1e-6, witness+10} (pairs of faults in the thorough tier) for infeasible_elimination and compose::<true,_>; contract: no panic, function unchanged (exact oracle, thin regions tolerated), aff_wf, cached witnesses/verdicts sound, reachable terminals kept by the fault-free run are kept; non-trivial: the injected fault changed the solver's genuine answer".into();
    rep.bound = format!("shapes with <= {n} decisions x {reps} assignment(s), dims in {{1,2}}; all single faults{}", if pairs { " and all ordered pairs at distinct positions (capped at 40 per tree)" } else { "" });
    let sh = shapes(2, n, true);
    let kinds = [Fault::Error, Fault::Unbounded, Fault::Shift(1e-6), Fault::Shift(10.0)];
    let mut idx = 0u64;
    for s in &sh {
        for r in 0..reps {
            idx += 1;
            if rep.skip(idx) {
                continue;
            }
            let mut rng = Rng::new(rep.seed ^ (idx * 15485863 + r as u64));
            let d = 1 + rng.below(2);
            let t0 = build::<2>(&mut rng, s, d, 1, false, false);
            let gpick = rng.below(sh.len().min(8));
            let g = build::<2>(&mut rng, &sh[gpick], 1, 1, false, false);
            let x0 = xtree(&t0).unwrap();
            let xg = xtree(&g).unwrap();
            let descr = format!("{} | g: {}", x0.descr(), xg.descr());
            for mode in 0..2 {
                // mode 0: infeasible_elimination, mode 1: compose::<true,false>(g)
                let run = |t: &mut AffTree<2>| {
                    if mode == 0 {
                        t.infeasible_elimination();
                    } else {
                        t.compose::<true, false>(&g);
                    }
                };
                let expect = |x: &[Q]| if mode == 0 { x0.eval(x) } else { x0.eval(x).and_then(|y| xg.eval(&y)) };
                let mut unpruned = t0.clone();
                if mode == 1 {
                    unpruned.compose::<false, false>(&g);
                }
                let xu = xtree(&unpruned).unwrap();
                verif_hook::install(vec![]);
                let mut base = t0.clone();
                let r0 = guarded(|| run(&mut base));
                let (calls, _) = verif_hook::uninstall();
                if r0.is_err() {
                    rep.viol(idx, "panic", format!("fault-free run panicked (mode {mode}) | {descr}"));
                    continue;
                }
                let xbase = xtree(&base).unwrap();
                // terminals of the fault-free result that some input can reach (non-empty closed path region)
                let base_leaves: Vec<usize> = xbase.leaves().into_iter().filter(|l| feasible(&xbase.closed_region(*l), d)).collect();
                let mut plans: Vec<Vec<(usize, Fault)>> = vec![];
                for c in 0..calls {
                    for k in &kinds {
                        plans.push(vec![(c, k.clone())]);
                    }
                }
                if pairs {
                    let mut cnt = 0;
                    'outer: for c1 in 0..calls {
                        for c2 in c1 + 1..calls + 2 {
                            for k1 in &kinds {
                                for k2 in &kinds {
                                    plans.push(vec![(c1, k1.clone()), (c2, k2.clone())]);
                                    cnt += 1;
                                    if cnt >= 40 {
                                        break 'outer;
                                    }
                                }
                            }
                        }
                    }
                }
                for plan in plans {
                    rep.evaluations += 1;
                    verif_hook::install(plan.clone());
                    let mut t = t0.clone();
                    let res = guarded(|| run(&mut t));
                    let (_, fired) = verif_hook::uninstall();
                    let pd = format!("mode {mode} plan {plan:?} | {descr}");
                    if fired.iter().any(|f| f.2) {
                        rep.nontrivial(&pd);
                    }
                    if let Err(p) = res {
                        rep.viol(idx, "panic", format!("panicked under LP fault: {p} | {pd}"));
                        continue;
                    }
                    let xt = match xtree(&t) {
                        Ok(x) => x,
                        Err(e) => {
                            rep.viol(idx, "nonfinite", format!("{e} | {pd}"));
                            continue;
                        }
                    };
                    if let Err(e) = xt.aff_wf() {
                        rep.viol(idx, "wf", format!("not well-formed under LP fault: {e} | {pd}"));
                        continue;
                    }
                    // elimination only removes nodes: every survivor keeps its index, its function and its kind (a decision never turns into a
                    // terminal that still holds its predicate)
                    if mode == 0 {
                        for (i, nd) in &xt.nodes {
                            match x0.nodes.get(i) {
                                None => rep.viol(idx, "wf", format!("node {i} appeared during elimination under LP fault | {pd}")),
                                Some(o) => {
                                    if o.isleaf != nd.isleaf {
                                        rep.viol(idx, "wf", format!("node {i} changed its kind (decision <-> terminal) under LP fault: it holds {} | {pd}", if o.isleaf { "a terminal function" } else { "a predicate" }));
                                    }
                                }
                            }
                        }
                    }
                    let mut tol = 0;
                    let region = |x: &[Q]| {
                        let (seen, _) = xu.route(x);
                        xu.closed_region(*seen.last().unwrap())
                    };
                    if let Err(e) = same_function(&expect, &region, &xt, d, true, &mut tol) {
                        rep.viol(idx, "function", format!("function changed under LP fault: {e} | {pd}"));
                    }
                    rep.tolerated += tol;
                    // caches
                    let tolq = Q::new(1, 100_000_000);
                    for (i, nd) in &xt.nodes {
                        match &nd.state {
                            XState::Witness(ws) => {
                                let reg = xt.closed_region(*i);
                                for w in ws {
                                    let wq: Option<Vec<Q>> = w.iter().map(|v| Q::from_f64(*v)).collect();
                                    let bad = match wq {
                                        None => true,
                                        Some(wq) => wq.len() != d || reg.iter().any(|r| r.b - crate::q::dot(&r.a, &wq) < -tolq),
                                    };
                                    if bad {
                                        rep.viol(idx, "cache", format!("unsound witness {w:?} cached at node {i} under LP fault | {pd}"));
                                    }
                                }
                            }
                            XState::Infeasible => {
                                if interior_nonempty(&xt.closed_region(*i), d) {
                                    rep.viol(idx, "cache", format!("node {i} marked infeasible although its region has an interior | {pd}"));
                                }
                            }
                            _ => {}
                        }
                    }
                    // only less pruning: terminals kept by the fault-free run survive
                    if mode == 0 {
                        for l in &base_leaves {
                            if !xt.nodes.contains_key(l) {
                                rep.viol(idx, "more-pruning", format!("terminal {l} kept by the fault-free run was removed under LP fault | {pd}"));
                            }
                        }
                    } else {
                        // composition allocates fresh indices: compare the multiset of terminal functions
                        let mut have: Vec<&XAff> = xt.leaves().iter().map(|l| &xt.nodes[l].aff).collect();
                        for l in &base_leaves {
                            let f = &xbase.nodes[l].aff;
                            match have.iter().position(|h| *h == f) {
                                Some(p) => {
                                    have.swap_remove(p);
                                }
                                None => rep.viol(idx, "more-pruning", format!("a terminal {:?} kept by the fault-free run is missing under LP fault | {pd}", f)),
                            }
                        }
                    }
                }
            }
            if idx < 3 {
                rep.sample(descr.clone());
            }
        }
    }
}

#[cfg(not(affinitree_verif))]
pub fn faults(rep: &mut Report, _tier: Tier) {
    rep.notes.push("bc was built without --cfg affinitree_verif: the LP fault hook is not available".into());
}
