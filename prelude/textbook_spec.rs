// ---- prelude/textbook_spec.rs : textbook scalar activation functions ----
// textbook scalar activations (the same definitions the schema contracts of unit pwl_schemas use)
pub open spec fn relu(t: real) -> real { if t > 0real { t } else { 0real } }
pub open spec fn finite(a: f64) -> bool { !a.nan() && !a.inf() }
pub open spec fn leaky_relu(t: real, alpha: real) -> real { if t > 0real { t } else { alpha * t } }
pub open spec fn threshold_fn(t: real, th: real, v: real) -> real { if t > th { t } else { v } }
pub open spec fn hard_tanh(t: real, lo: real, hi: real) -> real { if t > hi { hi } else if t < lo { lo } else { t } }
pub open spec fn hard_shrink(t: real, lam: real) -> real { if t > lam || t < -lam { t } else { 0real } }
pub open spec fn hard_sigmoid(t: real) -> real { if t <= 0real - 3real { 0real } else if t >= 3real { 1real } else { t / 6real + 1real / 2real } }

// first index holding the maximum of y[0..n]
pub open spec fn argmax_idx(y: V, n: int) -> int
    decreases n
{
    if n <= 1 { 0 } else { let j = argmax_idx(y, n - 1); if y[n - 1] > y[j] { n - 1 } else { j } }
}
pub open spec fn is_max_at(y: V, c: int) -> bool { forall|i: int| 0 <= i < y.len() ==> y[i] <= y[c] }

// ---- end textbook_spec ----
