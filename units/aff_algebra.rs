// unit aff_algebra — C16 / C14: affine functions and polytopes (src/linalg/affine.rs, src/linalg/impl_ops.rs)
use vstd::prelude::*;
use std::marker::PhantomData;
use std::ops::{Add, Sub, Mul, Div, Neg};
// what ndarray's `concatenate!` macro expands to, for two operands (rule M2)
macro_rules! concatenate { ($axis:expr, $a:expr, $b:expr) => { NdConcat::concat(&$a, $axis, &$b) }; }
verus! {

//@include prelude/math.rs
//@include prelude/nd_shim.rs
//@include prelude/nd_shim_ops.rs

//@item src/linalg/affine.rs | struct AffFuncBase
//@item src/linalg/affine.rs | struct FunctionT
//@item src/linalg/affine.rs | struct PolytopeT
type AffFuncG<A> = AffFuncBase<FunctionT, OwnedRepr<A>>;
type PolytopeG<A> = AffFuncBase<PolytopeT, OwnedRepr<A>>;


// ---- spec vocabulary: an AffFuncBase read as a function x |-> M x + b, or as a polytope {x | M x <= b}
impl<I, S: Data<Elem = A>, A: Float> AffFuncBase<I, S> {
    pub open spec fn ok(&self) -> bool { self.mat.nrows() == self.bias.v().len() }
    pub open spec fn ap(&self, x: V) -> V { vadd(mv(self.mat.m(), x), self.bias.v()) }
    pub open spec fn sat(&self, x: V) -> bool {
        forall|i: int| 0 <= i < self.mat.nrows() ==> dotp(#[trigger] self.mat.m()[i], x, x.len() as int) <= self.bias.v()[i]
    }
}
pub open spec fn unit_vec(n: int, i: int, s: real) -> V { Seq::new(n as nat, |j: int| if j == i { s } else { 0real }) }

impl<I, D: Data<Elem = A>, A: Float> AffFuncBase<I, D> {
//@fn src/linalg/affine.rs | impl<I, D: Data<Elem = A>, A: Float> AffFuncBase<I, D> | from_mats
//@spec
    requires mat.nrows() == bias.v().len()
    ensures r.mat == mat, r.bias == bias, r.ok()
//@end

//@fn src/linalg/affine.rs | impl<I, D: Data<Elem = A>, A: Float> AffFuncBase<I, D> | indim
//@spec
    ensures r == self.mat.ncols()
//@end

//@fn src/linalg/affine.rs | impl<I, D: Data<Elem = A>, A: Float> AffFuncBase<I, D> | outdim
//@spec
    ensures r == self.mat.nrows()
//@end
}

impl<A: Float> AffFuncG<A> {
//@fn src/linalg/affine.rs | impl<A: Float> AffFuncG<A> | identity
//@spec
    ensures r.ok(), r.mat.ncols() == dim, r.mat.nrows() == dim,
        forall|x: V| x.len() == dim ==> #[trigger] r.ap(x) =~= x,
//@hint start
        proof { assert forall|x: V| x.len() == dim implies #[trigger] vadd(mv(eye(dim as int), x), vconst(dim as int, 0real)) =~= x by { lemma_mv_eye(dim as int, x); } }
//@end

//@fn src/linalg/affine.rs | impl<A: Float> AffFuncG<A> | zeros
//@spec
    ensures r.ok(), r.mat.ncols() == dim, r.mat.nrows() == dim,
        forall|x: V| x.len() == dim ==> #[trigger] r.ap(x) =~= vconst(dim as int, 0real),
//@hint start
        proof { assert forall|x: V| x.len() == dim implies #[trigger] vadd(mv(mconst(dim as int, dim as int, 0real), x), vconst(dim as int, 0real)) =~= vconst(dim as int, 0real) by { lemma_mv_zero(dim as int, dim as int, x); } }
//@end

//@fn src/linalg/affine.rs | impl<A: Float> AffFuncG<A> | constant
//@spec
    ensures r.ok(), r.mat.ncols() == dim, r.mat.nrows() == 1,
        forall|x: V| x.len() == dim ==> #[trigger] r.ap(x) =~= seq![value.rv()],
//@hint start
        proof { assert forall|x: V| x.len() == dim implies #[trigger] mv(mconst(1, dim as int, 0real), x) =~= vconst(1, 0real) by { lemma_mv_zero(1, dim as int, x); } }
//@end

//@fn src/linalg/affine.rs | impl<A: Float> AffFuncG<A> | unit
//@spec
    requires index < dim
    ensures r.ok(), r.mat.ncols() == dim, r.mat.nrows() == 1,
        forall|x: V| x.len() == dim ==> #[trigger] r.ap(x) =~= seq![x[index as int]],
//@hint start
        proof {
            assert forall|x: V| x.len() == dim implies #[trigger] mv(mset(mconst(1, dim as int, 0real), 0, index as int, 1real), x) =~= seq![x[index as int]] by {
                let row = mset(mconst(1, dim as int, 0real), 0, index as int, 1real)[0];
                lemma_dotp_unit(row, x, dim as int, index as int, 1real);
                assert(1real * x[index as int] == x[index as int]) by(nonlinear_arith);
            }
        }
//@end

//@fn src/linalg/affine.rs | impl<A: Float> AffFuncG<A> | zero_idx
//@spec
    requires index < dim
    ensures r.ok(), r.mat.ncols() == dim, r.mat.nrows() == dim,
        forall|x: V| x.len() == dim ==> #[trigger] r.ap(x) =~= x.update(index as int, 0real),
//@hint start
        proof {
            assert forall|x: V| x.len() == dim implies #[trigger] mv(mset(eye(dim as int), index as int, index as int, 0real), x) =~= x.update(index as int, 0real) by {
                let mm0 = mset(eye(dim as int), index as int, index as int, 0real);
                assert forall|i: int| 0 <= i < dim implies mv(mm0, x)[i] == x.update(index as int, 0real)[i] by {
                    if i == index {
                        lemma_dotp_zero_left(mm0[i], x, dim as int);
                    } else {
                        lemma_dotp_unit(mm0[i], x, dim as int, i, 1real);
                        assert(1real * x[i] == x[i]) by(nonlinear_arith);
                    }
                }
            }
        }
//@end

//@fn src/linalg/affine.rs | impl<A: Float> AffFuncG<A> | sum
//@spec
    ensures r.ok(), r.mat.ncols() == dim, r.mat.nrows() == 1,
        forall|x: V| x.len() == dim ==> #[trigger] r.ap(x) =~= seq![dotp(vconst(dim as int, 1real), x, dim as int)],
//@end

//@fn src/linalg/affine.rs | impl<A: Float> AffFuncG<A> | translation
//@spec
    requires offset.v().len() == dim
    ensures r.ok(), r.mat.ncols() == dim, r.mat.nrows() == dim,
        forall|x: V| x.len() == dim ==> #[trigger] r.ap(x) =~= vadd(x, offset.v()),
//@hint start
        proof { assert forall|x: V| x.len() == dim implies #[trigger] mv(eye(dim as int), x) =~= x by { lemma_mv_eye(dim as int, x); } }
//@end

//@fn src/linalg/affine.rs | impl<A: Float> AffFuncG<A> | scaling
//@spec
    ensures r.ok(), r.mat.ncols() == scalars.v().len(), r.mat.nrows() == scalars.v().len(),
        forall|x: V| x.len() == scalars.v().len() ==> #[trigger] r.ap(x) =~= vmul(scalars.v(), x),
//@hint start
        proof { assert forall|x: V| x.len() == scalars.v().len() implies #[trigger] mv(diag(scalars.v()), x) =~= vmul(scalars.v(), x) by { lemma_mv_diag(scalars.v(), x); } }
//@end

//@fn src/linalg/affine.rs | impl<A: Float> AffFuncG<A> | uniform_scaling
//@spec
    ensures r.ok(), r.mat.ncols() == dim, r.mat.nrows() == dim,
        forall|x: V| x.len() == dim ==> #[trigger] r.ap(x) =~= vscale(x, scalar.rv()),
//@hint end
        proof {
            assert forall|x: V| x.len() == dim implies #[trigger] vmul(vconst(dim as int, scalar.rv()), x) =~= vscale(x, scalar.rv()) by {
                assert forall|i: int| 0 <= i < dim implies vmul(vconst(dim as int, scalar.rv()), x)[i] == vscale(x, scalar.rv())[i] by {
                    assert(scalar.rv() * x[i] == x[i] * scalar.rv()) by(nonlinear_arith);
                }
            }
        }
//@end

//@fn src/linalg/affine.rs | impl<A: Float> AffFuncG<A> | rotation
//@spec
    requires rotator.nrows() == rotator.ncols()
    ensures r.ok(), r.mat.ncols() == rotator.ncols(), r.mat.nrows() == rotator.nrows(),
        forall|x: V| x.len() == rotator.ncols() ==> #[trigger] r.ap(x) =~= mv(rotator.m(), x),
//@hint start
        broadcast use axiom_array2_shape;
//@end
}

impl<A: Float> AffFuncG<A> {
//@fn src/linalg/affine.rs | impl<A: Float> AffFuncG<A> | subtraction
//@bodysub? matrix[[0, right]] - A::one() => fsub(matrix[[0, right]], A::one())
//@bodysub? -A::one() => fneg(A::one())
//@spec
    requires left < dim, right < dim
    ensures r.ok(), r.mat.ncols() == dim, r.mat.nrows() == 1,
        forall|x: V| x.len() == dim ==> #[trigger] r.ap(x) =~= seq![x[left as int] - x[right as int]],
//@hint start
        proof {
            let c = if left == right { 0real } else { 0real - 1real };
            let mat2 = mset(mset(mconst(1, dim as int, 0real), 0, left as int, 1real), 0, right as int, c);
            assert forall|x: V| x.len() == dim implies #[trigger] mv(mat2, x) =~= seq![x[left as int] - x[right as int]] by {
                let row = mat2[0];
                if left == right {
                    lemma_dotp_zero_left(row, x, dim as int);
                } else {
                    lemma_dotp_two(row, x, dim as int, left as int, 1real, right as int, 0real - 1real);
                    assert(1real * x[left as int] + (0real - 1real) * x[right as int] == x[left as int] - x[right as int]) by(nonlinear_arith);
                }
            }
        }
//@end
}

/// # Evaluation
impl<D: Data<Elem = A>, A: Float + LinalgScalar> AffFuncBase<FunctionT, D> {
//@fn src/linalg/affine.rs | impl<D: Data<Elem = A>, A: Float + LinalgScalar> AffFuncBase<FunctionT, D> | apply
//@spec
    requires self.ok(), input.v().len() == self.mat.ncols()
    ensures r.v() == self.ap(input.v())
//@hint start
        broadcast use axiom_array2_shape;
//@end

//@fn src/linalg/affine.rs | impl<D: Data<Elem = A>, A: Float + LinalgScalar> AffFuncBase<FunctionT, D> | apply_transpose
//@bodysub input - &self.bias => Sub::sub(input, &self.bias)
//@spec
    requires self.ok(), input.v().len() == self.mat.nrows()
    ensures r.v() == mv(transpose(self.mat.m(), self.mat.ncols()), vsub(input.v(), self.bias.v()))
//@hint start
        broadcast use axiom_array2_shape;
//@end

//@fn src/linalg/affine.rs | impl<D: Data<Elem = A>, A: Float + LinalgScalar> AffFuncBase<FunctionT, D> | compose
//@spec
    requires self.ok(), other.ok(), self.mat.ncols() == other.mat.nrows()
    ensures r.ok(), r.mat.ncols() == other.mat.ncols(), r.mat.nrows() == self.mat.nrows(),
        // compose(f, g)(x) == f(g(x))
        forall|x: V| x.len() == other.mat.ncols() ==> #[trigger] r.ap(x) =~= self.ap(other.ap(x)),
//@hint start
        broadcast use axiom_array2_shape;
        proof {
            assert forall|x: V| x.len() == other.mat.ncols() implies
                #[trigger] vadd(mv(mm(self.mat.m(), other.mat.m(), other.mat.ncols()), x), vadd(mv(self.mat.m(), other.bias.v()), self.bias.v()))
                    =~= vadd(mv(self.mat.m(), vadd(mv(other.mat.m(), x), other.bias.v())), self.bias.v()) by {
                lemma_mm_mv(self.mat.m(), other.mat.m(), x, other.mat.ncols());
                lemma_mv_add_right(self.mat.m(), mv(other.mat.m(), x), other.bias.v());
            }
        }
//@end

//@fn src/linalg/affine.rs | impl<D: Data<Elem = A>, A: Float + LinalgScalar> AffFuncBase<FunctionT, D> | stack
//@spec
    requires self.ok(), other.ok(), self.mat.ncols() == other.mat.ncols()
    ensures r.ok(), r.mat.ncols() == self.mat.ncols(), r.mat.nrows() == self.mat.nrows() + other.mat.nrows(),
        // stack concatenates outputs
        forall|x: V| x.len() == self.mat.ncols() ==> #[trigger] r.ap(x) =~= self.ap(x) + other.ap(x),
//@hint start
        broadcast use axiom_array2_shape;
        proof {
            assert forall|x: V| x.len() == self.mat.ncols() implies
                #[trigger] vadd(mv(self.mat.m() + other.mat.m(), x), self.bias.v() + other.bias.v()) =~= vadd(mv(self.mat.m(), x), self.bias.v()) + vadd(mv(other.mat.m(), x), other.bias.v()) by {
                lemma_mv_stack(self.mat.m(), other.mat.m(), x);
            }
        }
//@end
}

// ---- element-wise operators (macro impl_ops!, rule M1: $trt / $mth substituted; rule T1: trait impl methods
// are verified as inherent methods <op>_ref / <op>_owned)
impl<S: Data<Elem = A>, A: Float> AffFuncBase<FunctionT, S> {

//@fn src/linalg/impl_ops.rs | impl<S: Data<Elem = A>, A: Float, S2: Data<Elem = A>> $trt<&AffFuncBase<FunctionT, S2>> for &AffFuncBase<FunctionT, S> | $mth | as=add_ref
//@sigsub fn add_ref(self, => fn add_ref<S2: Data<Elem = A>>(&self,
//@sigsub Self::Output => AffFuncBase<FunctionT, OwnedRepr<A>>
//@bodysub $mth => add
//@spec
    requires self.ok(), rhs.ok(), self.mat.nrows() == rhs.mat.nrows(), self.mat.ncols() == rhs.mat.ncols()
    ensures r.ok(), r.mat.nrows() == self.mat.nrows(), r.mat.ncols() == self.mat.ncols(),
        // coefficient-wise
        r.mat.m() == madd(self.mat.m(), rhs.mat.m()), r.bias.v() == vadd(self.bias.v(), rhs.bias.v()),
        forall|x: V| x.len() == self.mat.ncols() ==> #[trigger] r.ap(x) =~= vadd(self.ap(x), rhs.ap(x))
//@hint start
        broadcast use axiom_array2_shape;
        proof {
            assert forall|x: V| x.len() == self.mat.ncols() implies
                #[trigger] vadd(mv(madd(self.mat.m(), rhs.mat.m()), x), vadd(self.bias.v(), rhs.bias.v())) =~= vadd(vadd(mv(self.mat.m(), x), self.bias.v()), vadd(mv(rhs.mat.m(), x), rhs.bias.v())) by {
                lemma_mv_madd(self.mat.m(), rhs.mat.m(), x, self.mat.ncols());
            }
        }
//@end

//@fn src/linalg/impl_ops.rs | impl<S: Data<Elem = A>, A: Float, S2: Data<Elem = A>> $trt<&AffFuncBase<FunctionT, S2>> for &AffFuncBase<FunctionT, S> | $mth | as=sub_ref
//@sigsub fn sub_ref(self, => fn sub_ref<S2: Data<Elem = A>>(&self,
//@sigsub Self::Output => AffFuncBase<FunctionT, OwnedRepr<A>>
//@bodysub $mth => sub
//@spec
    requires self.ok(), rhs.ok(), self.mat.nrows() == rhs.mat.nrows(), self.mat.ncols() == rhs.mat.ncols()
    ensures r.ok(), r.mat.nrows() == self.mat.nrows(), r.mat.ncols() == self.mat.ncols(),
        // coefficient-wise
        r.mat.m() == msub(self.mat.m(), rhs.mat.m()), r.bias.v() == vsub(self.bias.v(), rhs.bias.v()),
        forall|x: V| x.len() == self.mat.ncols() ==> #[trigger] r.ap(x) =~= vsub(self.ap(x), rhs.ap(x))
//@hint start
        broadcast use axiom_array2_shape;
        proof {
            assert forall|x: V| x.len() == self.mat.ncols() implies
                #[trigger] vadd(mv(msub(self.mat.m(), rhs.mat.m()), x), vsub(self.bias.v(), rhs.bias.v())) =~= vsub(vadd(mv(self.mat.m(), x), self.bias.v()), vadd(mv(rhs.mat.m(), x), rhs.bias.v())) by {
                lemma_mv_msub(self.mat.m(), rhs.mat.m(), x, self.mat.ncols());
            }
        }
//@end

//@fn src/linalg/impl_ops.rs | impl<S: Data<Elem = A>, A: Float, S2: Data<Elem = A>> $trt<&AffFuncBase<FunctionT, S2>> for &AffFuncBase<FunctionT, S> | $mth | as=mul_ref
//@sigsub fn mul_ref(self, => fn mul_ref<S2: Data<Elem = A>>(&self,
//@sigsub Self::Output => AffFuncBase<FunctionT, OwnedRepr<A>>
//@bodysub $mth => mul
//@spec
    requires self.ok(), rhs.ok(), self.mat.nrows() == rhs.mat.nrows(), self.mat.ncols() == rhs.mat.ncols()
    ensures r.ok(), r.mat.nrows() == self.mat.nrows(), r.mat.ncols() == self.mat.ncols(),
        // coefficient-wise
        r.mat.m() == mmul(self.mat.m(), rhs.mat.m()), r.bias.v() == vmul(self.bias.v(), rhs.bias.v())
//@end

//@fn src/linalg/impl_ops.rs | impl<S: Data<Elem = A>, A: Float, S2: Data<Elem = A>> $trt<&AffFuncBase<FunctionT, S2>> for &AffFuncBase<FunctionT, S> | $mth | as=div_ref
//@sigsub fn div_ref(self, => fn div_ref<S2: Data<Elem = A>>(&self,
//@sigsub Self::Output => AffFuncBase<FunctionT, OwnedRepr<A>>
//@bodysub $mth => div
//@spec
    requires self.ok(), rhs.ok(), self.mat.nrows() == rhs.mat.nrows(), self.mat.ncols() == rhs.mat.ncols(),
        forall|i: int, j: int| 0 <= i < rhs.mat.nrows() && 0 <= j < rhs.mat.ncols() ==> rhs.mat.m()[i][j] != 0real,
        forall|i: int| 0 <= i < rhs.bias.v().len() ==> rhs.bias.v()[i] != 0real
    ensures r.ok(), r.mat.nrows() == self.mat.nrows(), r.mat.ncols() == self.mat.ncols(),
        // coefficient-wise
        r.mat.m() == mdiv(self.mat.m(), rhs.mat.m()), r.bias.v() == vdiv(self.bias.v(), rhs.bias.v())
//@end
}

impl<S: DataOwned<Elem = A> + DataMut, A: Float> AffFuncBase<FunctionT, S> {

//@fn src/linalg/impl_ops.rs | impl<S: DataOwned<Elem = A> + DataMut, A: Float, S2: Data<Elem = A>> $trt<&AffFuncBase<FunctionT, S2>> for AffFuncBase<FunctionT, S> | $mth | as=add_owned
//@sigsub fn add_owned(self, => fn add_owned<S2: Data<Elem = A>>(self,
//@sigsub Self::Output => AffFuncBase<FunctionT, S>
//@bodysub $mth => add
//@spec
    requires self.ok(), rhs.ok(), self.mat.nrows() == rhs.mat.nrows(), self.mat.ncols() == rhs.mat.ncols()
    ensures r.ok(), r.mat.nrows() == self.mat.nrows(), r.mat.ncols() == self.mat.ncols(),
        r.mat.m() == madd(self.mat.m(), rhs.mat.m()), r.bias.v() == vadd(self.bias.v(), rhs.bias.v()),
//@end

//@fn src/linalg/impl_ops.rs | impl<S: DataOwned<Elem = A> + DataMut, A: Float, S2: Data<Elem = A>> $trt<&AffFuncBase<FunctionT, S2>> for AffFuncBase<FunctionT, S> | $mth | as=sub_owned
//@sigsub fn sub_owned(self, => fn sub_owned<S2: Data<Elem = A>>(self,
//@sigsub Self::Output => AffFuncBase<FunctionT, S>
//@bodysub $mth => sub
//@spec
    requires self.ok(), rhs.ok(), self.mat.nrows() == rhs.mat.nrows(), self.mat.ncols() == rhs.mat.ncols()
    ensures r.ok(), r.mat.nrows() == self.mat.nrows(), r.mat.ncols() == self.mat.ncols(),
        r.mat.m() == msub(self.mat.m(), rhs.mat.m()), r.bias.v() == vsub(self.bias.v(), rhs.bias.v()),
//@end

//@fn src/linalg/impl_ops.rs | impl<S: DataOwned<Elem = A> + DataMut, A: Float, S2: Data<Elem = A>> $trt<&AffFuncBase<FunctionT, S2>> for AffFuncBase<FunctionT, S> | $mth | as=mul_owned
//@sigsub fn mul_owned(self, => fn mul_owned<S2: Data<Elem = A>>(self,
//@sigsub Self::Output => AffFuncBase<FunctionT, S>
//@bodysub $mth => mul
//@spec
    requires self.ok(), rhs.ok(), self.mat.nrows() == rhs.mat.nrows(), self.mat.ncols() == rhs.mat.ncols()
    ensures r.ok(), r.mat.nrows() == self.mat.nrows(), r.mat.ncols() == self.mat.ncols(),
        r.mat.m() == mmul(self.mat.m(), rhs.mat.m()), r.bias.v() == vmul(self.bias.v(), rhs.bias.v()),
//@end

//@fn src/linalg/impl_ops.rs | impl<S: DataOwned<Elem = A> + DataMut, A: Float, S2: Data<Elem = A>> $trt<&AffFuncBase<FunctionT, S2>> for AffFuncBase<FunctionT, S> | $mth | as=div_owned
//@sigsub fn div_owned(self, => fn div_owned<S2: Data<Elem = A>>(self,
//@sigsub Self::Output => AffFuncBase<FunctionT, S>
//@bodysub $mth => div
//@spec
    requires self.ok(), rhs.ok(), self.mat.nrows() == rhs.mat.nrows(), self.mat.ncols() == rhs.mat.ncols(),
        forall|i: int, j: int| 0 <= i < rhs.mat.nrows() && 0 <= j < rhs.mat.ncols() ==> rhs.mat.m()[i][j] != 0real,
        forall|i: int| 0 <= i < rhs.bias.v().len() ==> rhs.bias.v()[i] != 0real
    ensures r.ok(), r.mat.nrows() == self.mat.nrows(), r.mat.ncols() == self.mat.ncols(),
        r.mat.m() == mdiv(self.mat.m(), rhs.mat.m()), r.bias.v() == vdiv(self.bias.v(), rhs.bias.v()),
//@end

//@fn src/linalg/impl_ops.rs | impl<S: DataOwned<Elem = A> + DataMut, A: Float> Neg for AffFuncBase<FunctionT, S> | neg | as=neg_owned
//@sigsub Self::Output => AffFuncBase<FunctionT, S>
//@spec
    requires self.ok()
    ensures r.ok(), r.mat.nrows() == self.mat.nrows(), r.mat.ncols() == self.mat.ncols(),
        r.mat.m() == mneg(self.mat.m()), r.bias.v() == vneg(self.bias.v()),
        // -f is the point-wise negation
        forall|x: V| x.len() == self.mat.ncols() ==> #[trigger] r.ap(x) =~= vneg(self.ap(x)),
//@hint start
        broadcast use axiom_array2_shape;
        proof {
            assert forall|x: V| x.len() == self.mat.ncols() implies
                #[trigger] vadd(mv(mneg(self.mat.m()), x), vneg(self.bias.v())) =~= vneg(vadd(mv(self.mat.m(), x), self.bias.v())) by {
                lemma_mv_neg(self.mat.m(), x, self.mat.ncols());
            }
        }
//@end
}

impl<D: Data<Elem = A> + DataOwned + RawDataClone + DataMut, A: Float + LinalgScalar + Neg> AffFuncBase<FunctionT, D> {
//@fn src/linalg/affine.rs | impl<D: Data<Elem = A> + DataOwned + RawDataClone + DataMut, A: Float + LinalgScalar + Neg> AffFuncBase<FunctionT, D> | negate
//@spec
    requires self.ok()
    ensures r.ok(), r.mat.nrows() == self.mat.nrows(), r.mat.ncols() == self.mat.ncols(),
        forall|x: V| x.len() == self.mat.ncols() ==> #[trigger] r.ap(x) =~= vneg(self.ap(x)),
//@hint start
        broadcast use axiom_array2_shape;
        proof {
            assert forall|x: V| x.len() == self.mat.ncols() implies
                #[trigger] vadd(mv(mneg(self.mat.m()), x), vneg(self.bias.v())) =~= vneg(vadd(mv(self.mat.m(), x), self.bias.v())) by {
                lemma_mv_neg(self.mat.m(), x, self.mat.ncols());
            }
        }
//@end
}

// ---- ownership / type switches keep the coefficients (hence the denoted function / half-spaces)
impl<I, S: Data<Elem = A>, A: Float> AffFuncBase<I, S> {
//@fn src/linalg/affine.rs | impl<I, S: Data<Elem = A>, A: Float> AffFuncBase<I, S> | view
//@spec
    ensures r.mat.m() == self.mat.m(), r.bias.v() == self.bias.v(), r.mat.nrows() == self.mat.nrows(), r.mat.ncols() == self.mat.ncols()
//@end
//@fn src/linalg/affine.rs | impl<I, S: Data<Elem = A>, A: Float> AffFuncBase<I, S> | to_owned
//@spec
    ensures r.mat.m() == self.mat.m(), r.bias.v() == self.bias.v(), r.mat.nrows() == self.mat.nrows(), r.mat.ncols() == self.mat.ncols()
//@end
}
impl<D: Data<Elem = A> + RawDataClone, A: Float> AffFuncBase<FunctionT, D> {
//@fn src/linalg/affine.rs | impl<D: Data<Elem = A> + RawDataClone, A: Float> AffFuncBase<FunctionT, D> | as_polytope
//@spec
    ensures r.mat.m() == self.mat.m(), r.bias.v() == self.bias.v(), r.mat.nrows() == self.mat.nrows(), r.mat.ncols() == self.mat.ncols()
//@end
}
impl<D: Data<Elem = A> + RawDataClone, A: Float> AffFuncBase<PolytopeT, D> {
//@fn src/linalg/affine.rs | impl<D: Data<Elem = A> + RawDataClone, A: Float> AffFuncBase<PolytopeT, D> | as_function
//@spec
    ensures r.mat.m() == self.mat.m(), r.bias.v() == self.bias.v(), r.mat.nrows() == self.mat.nrows(), r.mat.ncols() == self.mat.ncols()
//@end
//@fn src/linalg/affine.rs | impl<D: Data<Elem = A> + RawDataClone, A: Float> AffFuncBase<PolytopeT, D> | new
//@spec
    ensures r.mat == aff.mat, r.bias == aff.bias
//@end
}

//@item src/linalg/affine.rs | enum PolyRepr | derive=Clone,Copy

impl<A: Float> AffFuncBase<PolytopeT, OwnedRepr<A>> {
//@fn src/linalg/affine.rs | impl<A: Float> AffFuncBase<PolytopeT, OwnedRepr<A>> | convert_to
//@spec
    requires self.ok()
    ensures r.ok(), r.mat.nrows() == self.mat.nrows(), r.mat.ncols() == self.mat.ncols(),
        // every representation describes the same half-spaces {x | M x <= b}, row by row
        repr == PolyRepr::MatrixLeqBias ==> r.mat.m() == self.mat.m() && r.bias.v() == self.bias.v(),
        repr == PolyRepr::MatrixBiasLeqZero ==> forall|x: V, i: int| x.len() == self.mat.ncols() && 0 <= i < self.mat.nrows() ==>
            (#[trigger] r.ap(x)[i] <= 0real <==> dotp(self.mat.m()[i], x, x.len() as int) <= self.bias.v()[i]),
        repr == PolyRepr::MatrixGeqBias ==> forall|x: V, i: int| x.len() == self.mat.ncols() && 0 <= i < self.mat.nrows() ==>
            (#[trigger] dotp(r.mat.m()[i], x, x.len() as int) >= r.bias.v()[i] <==> dotp(self.mat.m()[i], x, x.len() as int) <= self.bias.v()[i]),
        repr == PolyRepr::MatrixBiasGeqZero ==> forall|x: V, i: int| x.len() == self.mat.ncols() && 0 <= i < self.mat.nrows() ==>
            (#[trigger] r.ap(x)[i] >= 0real <==> dotp(self.mat.m()[i], x, x.len() as int) <= self.bias.v()[i]),
//@hint start
        broadcast use axiom_array2_shape;
        proof {
            assert forall|x: V, i: int| x.len() == self.mat.ncols() && 0 <= i < self.mat.nrows() implies
                #[trigger] dotp(mneg(self.mat.m())[i], x, x.len() as int) == -dotp(self.mat.m()[i], x, x.len() as int) by {
                lemma_dotp_neg_left(self.mat.m()[i], x, x.len() as int);
            }
        }
//@end
}

} // verus!
fn main() {}
