// unit pwl_regions — C09: PolyhedraGen (src/pwl/iter.rs): the path conditions reported with every node are those of its path
use vstd::prelude::*;
use std::marker::PhantomData;
use std::mem;
use std::ops::{Add, Sub, Mul, Div, Neg};
verus! {
global size_of usize == 8;

//@include prelude/inc_pwl_core.rs
//@item src/tree/graph.rs | struct EdgeReference
//@include prelude/inc_tree_nav.rs
//@item src/tree/iter.rs | struct DfsNodeData | derive=Clone,Copy
//@item src/tree/iter.rs | struct EdgeData
//@item src/tree/iter.rs | struct DfsPre | pub-fields
//@include prelude/iter_spec.rs
//@item src/pwl/iter.rs | struct PolyhedraGen | pub-fields | no-debug

impl DfsNodeData {
//@fn src/tree/iter.rs | impl DfsNodeData | extract
//@spec
    ensures r.0 == self.depth, r.1 == self.index, r.2 == self.n_remaining
//@end
}

// contracts of the node traversal, proved in unit tree_iter
impl DfsPre {
//@assumed units/tree_iter.rs | new | DfsPre
//@assumed units/tree_iter.rs | next | DfsPre
//@assumed units/tree_iter.rs | skip_subtree | DfsPre
}

//@include prelude/regions_spec.rs

impl PolyhedraGen {
//@fn src/pwl/iter.rs | impl PolyhedraGen | with_root
//@bodysub? predicates: Vec::with_capacity((tree.len() as f64).log2().ceil() as usize), => predicates: Vec::new(),
//@spec
    requires tree.wf(), tree.root == Some(root)
    ensures gen_inv(tree.arena@, r, Seq::<usize>::empty()),
        r.iter.stack@ == seq![DfsNodeData { depth: 0, index: root, n_remaining: 0 }], r.predicates@.len() == 0, r.last_depth == 0,
        r.iter.stack@ == seq![DfsNodeData { depth: 0, index: root, n_remaining: 0 }] && r.predicates@.len() == 0 && r.last_depth == 0 ==> gen_inv(tree.arena@, r, Seq::<usize>::empty()),
//@hint start
        proof {
            assert forall|g: PolyhedraGen| g.iter.stack@ == seq![DfsNodeData { depth: 0, index: root, n_remaining: 0 }] && g.predicates@.len() == 0 && g.last_depth == 0
                implies #[trigger] gen_inv(tree.arena@, g, Seq::<usize>::empty()) by { lemma_gen_init(tree.arena@, g, root); }
        }
//@end

//@fn src/pwl/iter.rs | impl PolyhedraGen | new
//@spec
    requires tree.wf(), tree.root is Some
    ensures gen_inv(tree.arena@, r, Seq::<usize>::empty()),
        r.iter.stack@ == seq![DfsNodeData { depth: 0, index: tree.root.unwrap(), n_remaining: 0 }], r.predicates@.len() == 0, r.last_depth == 0,
//@end

//@fn src/pwl/iter.rs | impl PolyhedraGen | skip_subtree
//@spec
    ensures skip_step(old(self).iter.stack@, old(self).iter.last_push, final(self).iter.stack@, final(self).iter.last_push),
        final(self).predicates@ == old(self).predicates@, final(self).last_depth == old(self).last_depth,
        // the reported path state is untouched, the bookkeeping invariant survives
        forall|a: AArena<2>, path: Seq<usize>| #[trigger] gen_inv(a, *old(self), path) ==> gen_inv(a, *final(self), path),
//@hint start
        proof {
            assert forall|a: AArena<2>, path: Seq<usize>, g1: PolyhedraGen| #[trigger] gen_inv(a, *old(self), path)
                && skip_step(old(self).iter.stack@, old(self).iter.last_push, g1.iter.stack@, g1.iter.last_push)
                && g1.predicates@ == old(self).predicates@ && g1.last_depth == old(self).last_depth implies #[trigger] gen_inv(a, g1, path) by {
                lemma_gen_skip(a, *old(self), g1, path);
            }
        }
//@end

//@fn src/pwl/iter.rs | impl PolyhedraGen | next
//@sigsub <const K: usize> =>
//@sigsub tree: &Tree<AffContent, K>, => tree: &Tree<AffContent, 2>, Ghost(path): Ghost<Seq<usize>>, Ghost(h): Ghost<Map<usize, nat>>,
//@sigsub Option<(DfsNodeData, &Vec<Polytope>)> => Option<DfsNodeData>
//@bodysub Some((data, &self.predicates)) => Some(data)
//@bodysub -1.0, => flit(-1, 1),
//@bodysub 1.0, => flit(1, 1),
//@bodysub &aff.mat * factor => Mul::mul(&aff.mat, factor)
//@bodysub &aff.bias * factor => Mul::mul(&aff.bias, factor)
//@bodysub tree.node_value(edg.source_idx).ok()?.aff => tree.tree_node(edg.source_idx).ok()?.value.aff
//@spec
    requires tree.wf(), gen_inv(tree.arena@, *old(self), path), dfs_inv(tree.arena@, h, old(self).iter.stack@),
        forall|i: usize| tree.arena@.dom().contains(i) ==> (#[trigger] tree.arena@[i]).value.aff.ok(),
    ensures
        dfs_step(tree.arena@, old(self).iter.stack@, final(self).iter.stack@, final(self).iter.last_push, r),
        dfs_inv(tree.arena@, h, final(self).iter.stack@),
        // C09: together with the node, exactly the half-spaces of its path are reported (closed on the label-0 side), in path order
        r matches Some(it) ==> gen_inv(tree.arena@, *final(self), next_path(path, it)),
        r is None ==> final(self).predicates@ == old(self).predicates@,
//@hint start
        let ghost a = tree.arena@;
        let ghost g0 = *self;
        let ghost s_old = self.iter.stack@;
        let ghost preds0 = self.predicates@;
        let ghost ld0 = self.last_depth;
        proof { lemma_gen_facts(a, g0, path); }
//@hint after let data = self.iter.next(tree)?;
        let ghost p1 = next_path(path, data);
        proof {
            assert(s_old[s_old.len() - 1] == data);
            lemma_anc_step(a, s_old, self.iter.stack@, self.iter.last_push, data, path);
        }
//@loop 1
                invariant
                    self.predicates@ == preds0.take(if __k <= preds0.len() { preds0.len() - __k } else { 0 }),
                    self.last_depth == ld0, self.iter == old_iter_after,
//@hint before if depth <= self.last_depth {
        let ghost old_iter_after = self.iter;
//@hint after self.last_depth = depth;
        let ghost preds1 = self.predicates@;
        proof {
            // after dropping the entries of the abandoned branch: one half-space per edge above the parent of the new node
            assert(preds1.len() == (if depth >= 1 { depth - 1 } else { 0 }));
            assert(preds1 =~= preds0.take(preds1.len() as int));
        }
//@hint after self.predicates.push(poly);
            proof {
                assert(edge_poly(*aff, edg.label, poly));
                assert(self.predicates@.take(depth - 1) =~= preds0.take(depth - 1));
                lemma_gen_step(a, g0, *self, path, data, edg.label);
            }
//@hint end
        proof {
            if depth == 0 { lemma_gen_step(a, g0, *self, path, data, 0); }
        }
//@end

//@fn src/pwl/iter.rs | impl PolyhedraGen | current_polytope
//@spec
    ensures r@ == self.predicates@
//@end
}


} // verus!
fn main() {}
