// unit pwl_ops_tree — C07 / C04: the tree operators + - * / (src/pwl/impl_ops.rs, macro impl_op_schema!) through generic_composition_inplace with the
// arithmetic schemas, feasibility oracle arbitrary: well-formed result, every node shaped, one terminal output dimension, no panic.
// (The node-level law "decisions unchanged, terminal = context op original" is proved in unit pwl_schema; the point-wise law on trees is bounded: bc ops.)
use vstd::prelude::*;
use std::marker::PhantomData;
use std::mem;
use std::ops::{Add, Sub, Mul, Div, Neg};
verus! {
global size_of usize == 8;

//@include prelude/inc_pwl_core.rs
//@include prelude/lp_oracle_spec.rs
//@include prelude/reach_spec.rs

impl<N, const K: usize> Tree<N, K> {
// as in unit pwl_compose_pruned: contract of unit tree_graph minus the arena-size precondition (assumed: fewer than 2^31 nodes)
#[verifier::external_body]
pub fn remove_child(&mut self, parent: TreeIndex, label: Label) -> (r: N)
    requires old(self).wf(), label < K,
        old(self).arena@.dom().contains(parent), old(self).arena@[parent].children[label as int] is Some,
    ensures
        final(self).root == old(self).root,
        child_removed(old(self).arena@, final(self).arena@, parent, label),
        final(self).wf(),
{ unimplemented!() }
//@assumed prelude/inc_tree_edit.rs | merge_child_with_parent
}

impl<const K: usize> AffTree<K> {
// contract proved in unit pwl_feasible on the real body INCLUDING the construction of the path polytope (binary trees)
//@assumed units/pwl_feasible.rs | is_edge_feasible
//@assumed units/pwl_compose_pruned.rs | update_node
}

// generate_infeasible!("infeasible"): the explore of the arithmetic schemas (rule M1)
//@fn src/pwl/impl_ops.rs | macro generate_infeasible | explore | as=arith_explore | nth=0
//@spec
    requires k_two::<K>(), context.tree.wf(), context.tree.root is Some, shape_op(context.a(), context.in_dim),
        parent != 0 ==> context.a().dom().contains(child) && context.a()[child].parent == Some(parent)
    ensures parent == 0 ==> r
//@hint start
        proof { reveal(shape_op); reveal(k_two); }
//@end

// node-level contracts of the four arithmetic schemas, proved in unit pwl_schema
//@assumed units/pwl_schema.rs | addition_schema_update_decision
//@assumed units/pwl_schema.rs | addition_schema_update_terminal
//@assumed units/pwl_schema.rs | subtraction_schema_update_decision
//@assumed units/pwl_schema.rs | subtraction_schema_update_terminal
//@assumed units/pwl_schema.rs | multiplication_schema_update_decision
//@assumed units/pwl_schema.rs | multiplication_schema_update_terminal
//@assumed units/pwl_schema.rs | division_schema_update_decision
//@assumed units/pwl_schema.rs | division_schema_update_terminal

//@include prelude/pruned_spec.rs
//@include prelude/tol_spec.rs
//@include prelude/wit_core_spec.rs
//@include prelude/wit_prune_spec.rs

// all terminals produce `od` components
pub open spec fn out_all<const K: usize>(a: AArena<K>, od: usize) -> bool {
    forall|i: usize| a.dom().contains(i) && #[trigger] a[i].isleaf ==> a[i].value.aff.mat.nrows() == od
}
// no terminal coefficient (matrix or bias) is zero: the documented requirement of `/`
pub open spec fn nonzero_leaves<const K: usize>(a: AArena<K>) -> bool {
    forall|i: usize| a.dom().contains(i) && #[trigger] a[i].isleaf ==>
        (forall|r: int, c: int| 0 <= r < a[i].value.aff.mat.nrows() && 0 <= c < a[i].value.aff.mat.ncols() ==> a[i].value.aff.mat.m()[r][c] != 0real)
        && (forall|r: int| 0 <= r < a[i].value.aff.bias.v().len() ==> a[i].value.aff.bias.v()[r] != 0real)
}
// rule I8 + the facts the operators need about the list of terminals
pub fn leaves_for<const K: usize>(t: &Tree<AffContent, K>, Ghost(dl): Ghost<usize>) -> (r: Vec<usize>)
    requires forall|i: usize| t.arena@.dom().contains(i) && #[trigger] t.arena@[i].isleaf ==> t.arena@[i].value.aff.mat.nrows() == dl
    ensures terminals_ok(t.arena@, r@, dl), forall|i: usize| t.arena@.dom().contains(i) && #[trigger] t.arena@[i].isleaf ==> r@.contains(i)
{
    let r = terminal_indices_vec(t);
    proof {
        reveal(terminals_ok);
        assert forall|j: int| 0 <= j < r@.len() implies t.arena@.dom().contains(#[trigger] r@[j]) && t.arena@[r@[j]].isleaf && t.arena@[r@[j]].value.aff.mat.nrows() == dl by {
            assert(r@.contains(r@[j]));
        }
    }
    r
}

impl<const K: usize> AffTree<K> {
//@fn src/pwl/impl_composition.rs | impl<const K: usize> AffTree<K> | generic_composition_inplace | as=gci_add
//@attr #[verifier::exec_allows_no_decreases_clause]
//@sigsub <I, C, V> =>
//@sigsub terminals: I, => terminals: Vec<TreeIndex>, Ghost(od): Ghost<usize>,
//@sigsub _schema: C, =>
//@sigsub mut visitor: V, =>
//@sigsub where I: IntoIterator<Item = TreeIndex>, C: CompositionSchema, V: CompositionVisitor, =>
//@bodysub let iter = terminals.into_iter(); =>
//@bodysub visitor.start_composition(iter.size_hint().0); =>
//@bodysub for terminal_idx in iter { => let mut __t: usize = 0; while __t < terminals.len() { let terminal_idx = terminals[__t]; __t += 1;
//@bodysub terminal.value.aff.clone() => terminal.value.aff.clone_aff()
//@bodysub ndarray::OwnedRepr<f64> => OwnedRepr<f64>
//@bodysub C::update_terminal( => addition_schema_update_terminal(
//@bodysub C::update_decision( => addition_schema_update_decision(
//@bodysub C::explore( => arith_explore(
//@bodysub let mut label_created = None; => let mut label_created: Option<usize> = None;
//@bodysub let mut created_children = 0; => let mut created_children: usize = 0;
//@bodysub let mut skipped_children = 0; => let mut skipped_children: usize = 0;
//@bodysub visitor.start_subtree(terminal_idx); =>
//@bodysub visitor.finish_subtree(n_nodes); =>
//@bodysub visitor.finish_composition(); =>
//@bodysub let mut n_nodes = 0; =>
//@bodysub n_nodes += 1; =>
//@bodysub let child0 = edg.target_value; => let child0 = &lhs.tree.tree_node(child0_idx).unwrap().value;
//@bodysub lhs.tree.is_leaf(child0_idx).unwrap() => lhs.tree.tree_node(child0_idx).unwrap().isleaf
//@spec
    requires K >= 2, K < usize::MAX, k_two::<K>(),      // K == 2 (opaque here)
        lhs.tree.wf(), lhs.tree.root is Some, aff_shape_ok(lhs.a(), lhs.in_dim),
        old(rhs).tree.wf(), old(rhs).tree.root == Some(0usize), aff_shape_ok(old(rhs).a(), old(rhs).in_dim),
        // both operands live on the same input space and produce vectors of the same length
        lhs.in_dim == old(rhs).in_dim, out_all(lhs.a(), od),
        terminals_ok(old(rhs).a(), terminals@, od),
    ensures
        // C04 / C07 (structure) for `tree add tree`, whatever the feasibility oracle answers:
        final(rhs).tree.wf(), final(rhs).tree.root == old(rhs).tree.root, final(rhs).in_dim == old(rhs).in_dim,
        aff_shape_ok(final(rhs).a(), final(rhs).in_dim),
        pr_outer(lhs.a(), old(rhs).a(), final(rhs).a(), terminals@, terminals@.len() as int),
        // C05 (caches through pruned tree arithmetic, whatever the feasibility oracle answers): witnesses that satisfied their path conditions up to 1e-8 before still do
        wit_inv(old(rhs).a(), old(rhs).a()) ==> wit_inv(final(rhs).a(), final(rhs).a()),
//@hint start
        let ghost rl = lhs.tree.root.unwrap();
        let ghost mut wset: Set<usize> = rhs.a().dom();
        proof { lemma_pr_outer_init(lhs.a(), rhs.a(), terminals@, od); lemma_gi_init(rhs.a()); }
//@hint loop 1 after
        proof { if wit_inv(old(rhs).a(), old(rhs).a()) { lemma_gi_final(old(rhs).a(), rhs.a(), wset); } }
//@loop 1
            invariant
                K >= 2, K < usize::MAX, k_two::<K>(), lhs.tree.wf(), lhs.tree.root is Some, aff_shape_ok(lhs.a(), lhs.in_dim),
                terminals_ok(old(rhs).a(), terminals@, od),
                0 <= __t <= terminals@.len(), rl == lhs.tree.root.unwrap(), lhs.in_dim == rhs.in_dim, out_all(lhs.a(), od),
                rhs.tree.wf(), rhs.tree.root == Some(0usize), rhs.in_dim == old(rhs).in_dim, aff_shape_ok(rhs.a(), rhs.in_dim),
                pr_outer(lhs.a(), old(rhs).a(), rhs.a(), terminals@, __t as int),
                old(rhs).tree.wf(), gi_inv(old(rhs).a(), rhs.a(), wset),
//@hint loop 1 start
            let ghost a_start = rhs.a();
            proof { lemma_pr_pick(lhs.a(), old(rhs).a(), a_start, terminals@, __t as int, od, rhs.in_dim); }
//@hint after rhs.update_node(terminal_idx, new_root_aff).unwrap();
            let ghost mut kind: Map<usize, usize> = Map::<usize, usize>::empty().insert(terminal_idx, rl);
            let ghost mut pend: Set<usize> = set![terminal_idx];
            proof {
                broadcast use axiom_array2_shape;
                lemma_pr_start(lhs.a(), a_start, rhs.a(), rl, terminal_idx, rhs.in_dim);
                lemma_shape_write(a_start, rhs.a(), rhs.in_dim, terminal_idx);
                lemma_gi_update(old(rhs).a(), a_start, rhs.a(), wset, terminal_idx);
            }
//@loop 2
                invariant
                    K >= 2, K < usize::MAX, k_two::<K>(), lhs.tree.wf(), lhs.tree.root is Some, aff_shape_ok(lhs.a(), lhs.in_dim),
                terminals_ok(old(rhs).a(), terminals@, od),
                    0 < __t <= terminals@.len(), terminal_idx == terminals@[__t - 1], rl == lhs.tree.root.unwrap(),
                    rhs.tree.wf(), rhs.tree.root == Some(0usize), rhs.in_dim == old(rhs).in_dim,
                    aff_shape_ok(a_start, rhs.in_dim), pr_outer(lhs.a(), old(rhs).a(), a_start, terminals@, __t - 1),
                    terminal_aff.ok(), terminal_aff.mat.ncols() == rhs.in_dim, terminal_aff.mat.nrows() == od, lhs.in_dim == rhs.in_dim, out_all(lhs.a(), od),
                    pr_inv(lhs.a(), rhs.a(), a_start, kind, pend, None, terminal_idx, rhs.in_dim), pr_stack(kind, pend, stack@),
                    shape_op(rhs.a(), rhs.in_dim),
                    old(rhs).tree.wf(), gi_inv(old(rhs).a(), rhs.a(), wset),
                ensures stack@.len() == 0,
//@hint loop 2 start
                proof {
                    lemma_pr_pop(lhs.a(), rhs.a(), a_start, kind, pend, terminal_idx, rhs.in_dim, stack@, (parent0_idx, parent1_idx));
                    pend = pend.remove(parent1_idx);
                    lemma_kid_seq_len(lhs.a()[parent0_idx].children, 0);
                    lemma_kid_seq_members(lhs.a()[parent0_idx].children, 0);
                    lemma_count_zero_no_kids(rhs.a()[parent1_idx], 0);
                    if !no_kids(lhs.a()[parent0_idx]) { lemma_rows_fit(lhs.a(), lhs.in_dim, parent0_idx, rhs.a()[parent1_idx].value.aff.mat.nrows() as int); }
                    lemma_gi_notdec(old(rhs).a(), rhs.a(), wset, parent1_idx);
                }
                let ghost p1_val = rhs.a()[parent1_idx].value;
//@loop 3
                    invariant
                        K >= 2, K < usize::MAX, k_two::<K>(), lhs.tree.wf(), lhs.tree.root is Some, aff_shape_ok(lhs.a(), lhs.in_dim),
                terminals_ok(old(rhs).a(), terminals@, od),
                        0 < __t <= terminals@.len(), terminal_idx == terminals@[__t - 1], rl == lhs.tree.root.unwrap(),
                    rhs.tree.wf(), rhs.tree.root == Some(0usize), rhs.in_dim == old(rhs).in_dim,
                    aff_shape_ok(a_start, rhs.in_dim), pr_outer(lhs.a(), old(rhs).a(), a_start, terminals@, __t - 1),
                    terminal_aff.ok(), terminal_aff.mat.ncols() == rhs.in_dim, terminal_aff.mat.nrows() == od, lhs.in_dim == rhs.in_dim, out_all(lhs.a(), od),
                        pr_inv(lhs.a(), rhs.a(), a_start, kind, pend, Some(parent1_idx), terminal_idx, rhs.in_dim), pr_stack(kind, pend, stack@),
                        kind.dom().contains(parent1_idx), kind[parent1_idx] == parent0_idx, !pend.contains(parent1_idx),
                        shape_op(rhs.a(), rhs.in_dim), rhs.a()[parent1_idx].value == p1_val, !no_kids(lhs.a()[parent0_idx]) ==> rows_fit::<K>(p1_val.aff.mat.nrows() as int),
                        lhs.a().dom().contains(parent0_idx), rhs.a().dom().contains(parent1_idx),
                        old(rhs).tree.wf(), gi_inv(old(rhs).a(), rhs.a(), wset), gi_notdec(old(rhs).a(), parent1_idx),
                        0 <= __i <= __kids@.len(), __kids@.len() == kid_seq(lhs.a()[parent0_idx].children, 0).len(), __kids@.len() <= K,
                        n_children0 == __kids@.len(),
                        forall|j: int| 0 <= j < __kids@.len() ==> (#[trigger] __kids@[j]).source_idx == parent0_idx
                            && __kids@[j].label == kid_seq(lhs.a()[parent0_idx].children, 0)[j].0 && __kids@[j].target_idx == kid_seq(lhs.a()[parent0_idx].children, 0)[j].1,
                        // bookkeeping of the pruning logic
                        created_children + skipped_children == __i, parent1_idx == 0 ==> skipped_children == 0,
                        count_some_from(rhs.a()[parent1_idx].children, 0) == created_children,
                        created_children == 0 ==> __i < __kids@.len() || __kids@.len() == 0,
                        created_children >= 1 ==> label_created is Some && label_created.unwrap() < K
                            && rhs.a()[parent1_idx].children[label_created.unwrap() as int] is Some
                            && pend.contains(rhs.a()[parent1_idx].children[label_created.unwrap() as int].unwrap()),
                        forall|j: int| __i <= j < __kids@.len() ==> rhs.a()[parent1_idx].children[(#[trigger] __kids@[j]).label as int].is_none(),
//@hint loop 3 start
                    let ghost a_pre = rhs.a();
                    let ghost st_pre = stack@;
                    proof {
                        lemma_kid_seq_members(lhs.a()[parent0_idx].children, 0);
                        lemma_kid_seq_len(lhs.a()[parent0_idx].children, 0);
                        lemma_count_zero_no_kids(lhs.a()[parent0_idx], 0);
                    }
//@hint after let child1_idx = rhs .tree .add_child_node(parent1_idx, label, AffContent::new(child1_aff)) .unwrap();
                    let ghost a_add = rhs.a();
                    proof {
                        broadcast use axiom_array2_shape;
                        assert forall|k: int| 0 <= k < K && k != label implies a_add[parent1_idx].children[k] == a_pre[parent1_idx].children[k] by {
                            assert(a_add[parent1_idx].children@[k] == a_pre[parent1_idx].children@[k]);
                        }
                        assert(a_add[parent1_idx].children[label as int] == Some(child1_idx)) by { assert(a_add[parent1_idx].children@[label as int] == Some(child1_idx)); }
                        lemma_count_set(a_pre[parent1_idx].children, a_add[parent1_idx].children, label as int, 0);
                        // the tree handed to the feasibility test is shape-consistent (needed by the real path polytope)
                        lemma_shape_add(a_pre, a_add, rhs.in_dim, parent1_idx, label, child1_idx);
                        lemma_gi_add(old(rhs).a(), a_pre, a_add, wset, parent1_idx, label, child1_idx);
                    }
//@hint after label_created = Some(label);
                        proof {
                            lemma_pr_keep(lhs.a(), a_pre, a_add, a_start, kind, pend, terminal_idx, rhs.in_dim, st_pre, parent1_idx, label, child0_idx, child1_idx);
                            assert(st_pre.push((child0_idx, child1_idx)) =~= stack@);
                            kind = kind.insert(child1_idx, child0_idx);
                            pend = pend.insert(child1_idx);
                        }
//@hint after rhs.tree.remove_child(parent1_idx, label);
                        proof {
                            lemma_prune_roundtrip(a_pre, a_add, rhs.a(), Some(0usize), parent1_idx, label, child1_idx);
                            assert(rhs.a() == a_pre);
                        }
//@hint after rhs.tree .merge_child_with_parent(parent1_idx, label_created.unwrap()) .unwrap();
                    proof {
                        lemma_pr_merge(lhs.a(), a_fin, rhs.a(), a_start, kind, pend, terminal_idx, rhs.in_dim, stack@, parent1_idx, label_created.unwrap(), Some(0usize));
                        lemma_shape_merge(a_fin, rhs.a(), rhs.in_dim, parent1_idx, label_created.unwrap());
                        kind = kind.remove(parent1_idx);
                        lemma_gi_merge(old(rhs).a(), a_fin, rhs.a(), wset, parent1_idx, label_created.unwrap(), false);
                        wset = wset.remove(parent1_idx);
                    }
//@hint loop 3 after
                let ghost a_fin = rhs.a();
                proof {
                    lemma_count_zero_no_kids(a_fin[parent1_idx], 0);
                    lemma_count_zero_no_kids(lhs.a()[parent0_idx], 0);
                    lemma_kid_seq_len(lhs.a()[parent0_idx].children, 0);
                    if !(created_children == 1 && created_children + skipped_children == K) {
                        lemma_pr_done(lhs.a(), a_fin, a_start, kind, pend, terminal_idx, rhs.in_dim, parent1_idx);
                    }
                }
//@hint loop 2 after
            proof {
                assert(stack@ =~= Seq::<(usize, usize)>::empty());
                lemma_pr_terminal_done(lhs.a(), old(rhs).a(), a_start, rhs.a(), terminals@, __t as int, od, kind, pend, rhs.in_dim);
                lemma_pr_shape(lhs.a(), rhs.a(), a_start, kind, pend, None, terminal_idx, rhs.in_dim, lhs.in_dim);
            }
//@end


// impl_op_schema!(Add, add, ..): the in-place operator `AffTree add &AffTree` (rule M1: $trt := Add, $op := add; rule T1: verified as an inherent method)
//@fn src/pwl/impl_ops.rs | impl<const K: usize> $trt<&AffTree<K>> for AffTree<K> | $op | as=tree_add
//@sigsub -> Self::Output => -> AffTree<K>
//@sigsub rhs: &AffTree<K> => rhs: &AffTree<K>, Ghost(od): Ghost<usize>
//@sigsub mut self => self
//@bodysub self => __s
//@bodysub let terminals = __s.tree.terminal_indices().collect_vec(); => let mut __s = self; let terminals = leaves_for(&__s.tree, Ghost(od));
//@bodysub AffTree::<K>::generic_composition_inplace( => AffTree::<K>::gci_add(
//@bodysub terminals, $name {}, NoOpVis {} => terminals, Ghost(od)
//@spec
    requires K >= 2, K < usize::MAX, k_two::<K>(),      // K == 2 (opaque here)
        rhs.tree.wf(), rhs.tree.root is Some, aff_shape_ok(rhs.a(), rhs.in_dim),
        self.tree.wf(), self.tree.root == Some(0usize), aff_shape_ok(self.a(), self.in_dim),
        self.in_dim == rhs.in_dim, out_all(self.a(), od), out_all(rhs.a(), od),
    ensures
        r.tree.wf(), r.tree.root == Some(0usize), r.in_dim == self.in_dim, aff_shape_ok(r.a(), r.in_dim), out_all(r.a(), od),
        // C05: cached witnesses of the receiving operand that were right stay right (copied nodes start without cache)
        wit_inv(self.a(), self.a()) ==> wit_inv(r.a(), r.a()),
//@hint start
        proof { reveal(pr_outer); }
//@end

//@fn src/pwl/impl_composition.rs | impl<const K: usize> AffTree<K> | generic_composition_inplace | as=gci_sub
//@attr #[verifier::exec_allows_no_decreases_clause]
//@sigsub <I, C, V> =>
//@sigsub terminals: I, => terminals: Vec<TreeIndex>, Ghost(od): Ghost<usize>,
//@sigsub _schema: C, =>
//@sigsub mut visitor: V, =>
//@sigsub where I: IntoIterator<Item = TreeIndex>, C: CompositionSchema, V: CompositionVisitor, =>
//@bodysub let iter = terminals.into_iter(); =>
//@bodysub visitor.start_composition(iter.size_hint().0); =>
//@bodysub for terminal_idx in iter { => let mut __t: usize = 0; while __t < terminals.len() { let terminal_idx = terminals[__t]; __t += 1;
//@bodysub terminal.value.aff.clone() => terminal.value.aff.clone_aff()
//@bodysub ndarray::OwnedRepr<f64> => OwnedRepr<f64>
//@bodysub C::update_terminal( => subtraction_schema_update_terminal(
//@bodysub C::update_decision( => subtraction_schema_update_decision(
//@bodysub C::explore( => arith_explore(
//@bodysub let mut label_created = None; => let mut label_created: Option<usize> = None;
//@bodysub let mut created_children = 0; => let mut created_children: usize = 0;
//@bodysub let mut skipped_children = 0; => let mut skipped_children: usize = 0;
//@bodysub visitor.start_subtree(terminal_idx); =>
//@bodysub visitor.finish_subtree(n_nodes); =>
//@bodysub visitor.finish_composition(); =>
//@bodysub let mut n_nodes = 0; =>
//@bodysub n_nodes += 1; =>
//@bodysub let child0 = edg.target_value; => let child0 = &lhs.tree.tree_node(child0_idx).unwrap().value;
//@bodysub lhs.tree.is_leaf(child0_idx).unwrap() => lhs.tree.tree_node(child0_idx).unwrap().isleaf
//@spec
    requires K >= 2, K < usize::MAX, k_two::<K>(),      // K == 2 (opaque here)
        lhs.tree.wf(), lhs.tree.root is Some, aff_shape_ok(lhs.a(), lhs.in_dim),
        old(rhs).tree.wf(), old(rhs).tree.root == Some(0usize), aff_shape_ok(old(rhs).a(), old(rhs).in_dim),
        // both operands live on the same input space and produce vectors of the same length
        lhs.in_dim == old(rhs).in_dim, out_all(lhs.a(), od),
        terminals_ok(old(rhs).a(), terminals@, od),
    ensures
        // C04 / C07 (structure) for `tree sub tree`, whatever the feasibility oracle answers:
        final(rhs).tree.wf(), final(rhs).tree.root == old(rhs).tree.root, final(rhs).in_dim == old(rhs).in_dim,
        aff_shape_ok(final(rhs).a(), final(rhs).in_dim),
        pr_outer(lhs.a(), old(rhs).a(), final(rhs).a(), terminals@, terminals@.len() as int),
        // C05 (caches through pruned tree arithmetic, whatever the feasibility oracle answers): witnesses that satisfied their path conditions up to 1e-8 before still do
        wit_inv(old(rhs).a(), old(rhs).a()) ==> wit_inv(final(rhs).a(), final(rhs).a()),
//@hint start
        let ghost rl = lhs.tree.root.unwrap();
        let ghost mut wset: Set<usize> = rhs.a().dom();
        proof { lemma_pr_outer_init(lhs.a(), rhs.a(), terminals@, od); lemma_gi_init(rhs.a()); }
//@hint loop 1 after
        proof { if wit_inv(old(rhs).a(), old(rhs).a()) { lemma_gi_final(old(rhs).a(), rhs.a(), wset); } }
//@loop 1
            invariant
                K >= 2, K < usize::MAX, k_two::<K>(), lhs.tree.wf(), lhs.tree.root is Some, aff_shape_ok(lhs.a(), lhs.in_dim),
                terminals_ok(old(rhs).a(), terminals@, od),
                0 <= __t <= terminals@.len(), rl == lhs.tree.root.unwrap(), lhs.in_dim == rhs.in_dim, out_all(lhs.a(), od),
                rhs.tree.wf(), rhs.tree.root == Some(0usize), rhs.in_dim == old(rhs).in_dim, aff_shape_ok(rhs.a(), rhs.in_dim),
                pr_outer(lhs.a(), old(rhs).a(), rhs.a(), terminals@, __t as int),
                old(rhs).tree.wf(), gi_inv(old(rhs).a(), rhs.a(), wset),
//@hint loop 1 start
            let ghost a_start = rhs.a();
            proof { lemma_pr_pick(lhs.a(), old(rhs).a(), a_start, terminals@, __t as int, od, rhs.in_dim); }
//@hint after rhs.update_node(terminal_idx, new_root_aff).unwrap();
            let ghost mut kind: Map<usize, usize> = Map::<usize, usize>::empty().insert(terminal_idx, rl);
            let ghost mut pend: Set<usize> = set![terminal_idx];
            proof {
                broadcast use axiom_array2_shape;
                lemma_pr_start(lhs.a(), a_start, rhs.a(), rl, terminal_idx, rhs.in_dim);
                lemma_shape_write(a_start, rhs.a(), rhs.in_dim, terminal_idx);
                lemma_gi_update(old(rhs).a(), a_start, rhs.a(), wset, terminal_idx);
            }
//@loop 2
                invariant
                    K >= 2, K < usize::MAX, k_two::<K>(), lhs.tree.wf(), lhs.tree.root is Some, aff_shape_ok(lhs.a(), lhs.in_dim),
                terminals_ok(old(rhs).a(), terminals@, od),
                    0 < __t <= terminals@.len(), terminal_idx == terminals@[__t - 1], rl == lhs.tree.root.unwrap(),
                    rhs.tree.wf(), rhs.tree.root == Some(0usize), rhs.in_dim == old(rhs).in_dim,
                    aff_shape_ok(a_start, rhs.in_dim), pr_outer(lhs.a(), old(rhs).a(), a_start, terminals@, __t - 1),
                    terminal_aff.ok(), terminal_aff.mat.ncols() == rhs.in_dim, terminal_aff.mat.nrows() == od, lhs.in_dim == rhs.in_dim, out_all(lhs.a(), od),
                    pr_inv(lhs.a(), rhs.a(), a_start, kind, pend, None, terminal_idx, rhs.in_dim), pr_stack(kind, pend, stack@),
                    shape_op(rhs.a(), rhs.in_dim),
                    old(rhs).tree.wf(), gi_inv(old(rhs).a(), rhs.a(), wset),
                ensures stack@.len() == 0,
//@hint loop 2 start
                proof {
                    lemma_pr_pop(lhs.a(), rhs.a(), a_start, kind, pend, terminal_idx, rhs.in_dim, stack@, (parent0_idx, parent1_idx));
                    pend = pend.remove(parent1_idx);
                    lemma_kid_seq_len(lhs.a()[parent0_idx].children, 0);
                    lemma_kid_seq_members(lhs.a()[parent0_idx].children, 0);
                    lemma_count_zero_no_kids(rhs.a()[parent1_idx], 0);
                    if !no_kids(lhs.a()[parent0_idx]) { lemma_rows_fit(lhs.a(), lhs.in_dim, parent0_idx, rhs.a()[parent1_idx].value.aff.mat.nrows() as int); }
                    lemma_gi_notdec(old(rhs).a(), rhs.a(), wset, parent1_idx);
                }
                let ghost p1_val = rhs.a()[parent1_idx].value;
//@loop 3
                    invariant
                        K >= 2, K < usize::MAX, k_two::<K>(), lhs.tree.wf(), lhs.tree.root is Some, aff_shape_ok(lhs.a(), lhs.in_dim),
                terminals_ok(old(rhs).a(), terminals@, od),
                        0 < __t <= terminals@.len(), terminal_idx == terminals@[__t - 1], rl == lhs.tree.root.unwrap(),
                    rhs.tree.wf(), rhs.tree.root == Some(0usize), rhs.in_dim == old(rhs).in_dim,
                    aff_shape_ok(a_start, rhs.in_dim), pr_outer(lhs.a(), old(rhs).a(), a_start, terminals@, __t - 1),
                    terminal_aff.ok(), terminal_aff.mat.ncols() == rhs.in_dim, terminal_aff.mat.nrows() == od, lhs.in_dim == rhs.in_dim, out_all(lhs.a(), od),
                        pr_inv(lhs.a(), rhs.a(), a_start, kind, pend, Some(parent1_idx), terminal_idx, rhs.in_dim), pr_stack(kind, pend, stack@),
                        kind.dom().contains(parent1_idx), kind[parent1_idx] == parent0_idx, !pend.contains(parent1_idx),
                        shape_op(rhs.a(), rhs.in_dim), rhs.a()[parent1_idx].value == p1_val, !no_kids(lhs.a()[parent0_idx]) ==> rows_fit::<K>(p1_val.aff.mat.nrows() as int),
                        lhs.a().dom().contains(parent0_idx), rhs.a().dom().contains(parent1_idx),
                        old(rhs).tree.wf(), gi_inv(old(rhs).a(), rhs.a(), wset), gi_notdec(old(rhs).a(), parent1_idx),
                        0 <= __i <= __kids@.len(), __kids@.len() == kid_seq(lhs.a()[parent0_idx].children, 0).len(), __kids@.len() <= K,
                        n_children0 == __kids@.len(),
                        forall|j: int| 0 <= j < __kids@.len() ==> (#[trigger] __kids@[j]).source_idx == parent0_idx
                            && __kids@[j].label == kid_seq(lhs.a()[parent0_idx].children, 0)[j].0 && __kids@[j].target_idx == kid_seq(lhs.a()[parent0_idx].children, 0)[j].1,
                        // bookkeeping of the pruning logic
                        created_children + skipped_children == __i, parent1_idx == 0 ==> skipped_children == 0,
                        count_some_from(rhs.a()[parent1_idx].children, 0) == created_children,
                        created_children == 0 ==> __i < __kids@.len() || __kids@.len() == 0,
                        created_children >= 1 ==> label_created is Some && label_created.unwrap() < K
                            && rhs.a()[parent1_idx].children[label_created.unwrap() as int] is Some
                            && pend.contains(rhs.a()[parent1_idx].children[label_created.unwrap() as int].unwrap()),
                        forall|j: int| __i <= j < __kids@.len() ==> rhs.a()[parent1_idx].children[(#[trigger] __kids@[j]).label as int].is_none(),
//@hint loop 3 start
                    let ghost a_pre = rhs.a();
                    let ghost st_pre = stack@;
                    proof {
                        lemma_kid_seq_members(lhs.a()[parent0_idx].children, 0);
                        lemma_kid_seq_len(lhs.a()[parent0_idx].children, 0);
                        lemma_count_zero_no_kids(lhs.a()[parent0_idx], 0);
                    }
//@hint after let child1_idx = rhs .tree .add_child_node(parent1_idx, label, AffContent::new(child1_aff)) .unwrap();
                    let ghost a_add = rhs.a();
                    proof {
                        broadcast use axiom_array2_shape;
                        assert forall|k: int| 0 <= k < K && k != label implies a_add[parent1_idx].children[k] == a_pre[parent1_idx].children[k] by {
                            assert(a_add[parent1_idx].children@[k] == a_pre[parent1_idx].children@[k]);
                        }
                        assert(a_add[parent1_idx].children[label as int] == Some(child1_idx)) by { assert(a_add[parent1_idx].children@[label as int] == Some(child1_idx)); }
                        lemma_count_set(a_pre[parent1_idx].children, a_add[parent1_idx].children, label as int, 0);
                        // the tree handed to the feasibility test is shape-consistent (needed by the real path polytope)
                        lemma_shape_add(a_pre, a_add, rhs.in_dim, parent1_idx, label, child1_idx);
                        lemma_gi_add(old(rhs).a(), a_pre, a_add, wset, parent1_idx, label, child1_idx);
                    }
//@hint after label_created = Some(label);
                        proof {
                            lemma_pr_keep(lhs.a(), a_pre, a_add, a_start, kind, pend, terminal_idx, rhs.in_dim, st_pre, parent1_idx, label, child0_idx, child1_idx);
                            assert(st_pre.push((child0_idx, child1_idx)) =~= stack@);
                            kind = kind.insert(child1_idx, child0_idx);
                            pend = pend.insert(child1_idx);
                        }
//@hint after rhs.tree.remove_child(parent1_idx, label);
                        proof {
                            lemma_prune_roundtrip(a_pre, a_add, rhs.a(), Some(0usize), parent1_idx, label, child1_idx);
                            assert(rhs.a() == a_pre);
                        }
//@hint after rhs.tree .merge_child_with_parent(parent1_idx, label_created.unwrap()) .unwrap();
                    proof {
                        lemma_pr_merge(lhs.a(), a_fin, rhs.a(), a_start, kind, pend, terminal_idx, rhs.in_dim, stack@, parent1_idx, label_created.unwrap(), Some(0usize));
                        lemma_shape_merge(a_fin, rhs.a(), rhs.in_dim, parent1_idx, label_created.unwrap());
                        kind = kind.remove(parent1_idx);
                        lemma_gi_merge(old(rhs).a(), a_fin, rhs.a(), wset, parent1_idx, label_created.unwrap(), false);
                        wset = wset.remove(parent1_idx);
                    }
//@hint loop 3 after
                let ghost a_fin = rhs.a();
                proof {
                    lemma_count_zero_no_kids(a_fin[parent1_idx], 0);
                    lemma_count_zero_no_kids(lhs.a()[parent0_idx], 0);
                    lemma_kid_seq_len(lhs.a()[parent0_idx].children, 0);
                    if !(created_children == 1 && created_children + skipped_children == K) {
                        lemma_pr_done(lhs.a(), a_fin, a_start, kind, pend, terminal_idx, rhs.in_dim, parent1_idx);
                    }
                }
//@hint loop 2 after
            proof {
                assert(stack@ =~= Seq::<(usize, usize)>::empty());
                lemma_pr_terminal_done(lhs.a(), old(rhs).a(), a_start, rhs.a(), terminals@, __t as int, od, kind, pend, rhs.in_dim);
                lemma_pr_shape(lhs.a(), rhs.a(), a_start, kind, pend, None, terminal_idx, rhs.in_dim, lhs.in_dim);
            }
//@end


// impl_op_schema!(Sub, sub, ..): the in-place operator `AffTree sub &AffTree` (rule M1: $trt := Sub, $op := sub; rule T1: verified as an inherent method)
//@fn src/pwl/impl_ops.rs | impl<const K: usize> $trt<&AffTree<K>> for AffTree<K> | $op | as=tree_sub
//@sigsub -> Self::Output => -> AffTree<K>
//@sigsub rhs: &AffTree<K> => rhs: &AffTree<K>, Ghost(od): Ghost<usize>
//@sigsub mut self => self
//@bodysub self => __s
//@bodysub let terminals = __s.tree.terminal_indices().collect_vec(); => let mut __s = self; let terminals = leaves_for(&__s.tree, Ghost(od));
//@bodysub AffTree::<K>::generic_composition_inplace( => AffTree::<K>::gci_sub(
//@bodysub terminals, $name {}, NoOpVis {} => terminals, Ghost(od)
//@spec
    requires K >= 2, K < usize::MAX, k_two::<K>(),      // K == 2 (opaque here)
        rhs.tree.wf(), rhs.tree.root is Some, aff_shape_ok(rhs.a(), rhs.in_dim),
        self.tree.wf(), self.tree.root == Some(0usize), aff_shape_ok(self.a(), self.in_dim),
        self.in_dim == rhs.in_dim, out_all(self.a(), od), out_all(rhs.a(), od),
    ensures
        r.tree.wf(), r.tree.root == Some(0usize), r.in_dim == self.in_dim, aff_shape_ok(r.a(), r.in_dim), out_all(r.a(), od),
        // C05: cached witnesses of the receiving operand that were right stay right (copied nodes start without cache)
        wit_inv(self.a(), self.a()) ==> wit_inv(r.a(), r.a()),
//@hint start
        proof { reveal(pr_outer); }
//@end

//@fn src/pwl/impl_composition.rs | impl<const K: usize> AffTree<K> | generic_composition_inplace | as=gci_mul
//@attr #[verifier::exec_allows_no_decreases_clause]
//@sigsub <I, C, V> =>
//@sigsub terminals: I, => terminals: Vec<TreeIndex>, Ghost(od): Ghost<usize>,
//@sigsub _schema: C, =>
//@sigsub mut visitor: V, =>
//@sigsub where I: IntoIterator<Item = TreeIndex>, C: CompositionSchema, V: CompositionVisitor, =>
//@bodysub let iter = terminals.into_iter(); =>
//@bodysub visitor.start_composition(iter.size_hint().0); =>
//@bodysub for terminal_idx in iter { => let mut __t: usize = 0; while __t < terminals.len() { let terminal_idx = terminals[__t]; __t += 1;
//@bodysub terminal.value.aff.clone() => terminal.value.aff.clone_aff()
//@bodysub ndarray::OwnedRepr<f64> => OwnedRepr<f64>
//@bodysub C::update_terminal( => multiplication_schema_update_terminal(
//@bodysub C::update_decision( => multiplication_schema_update_decision(
//@bodysub C::explore( => arith_explore(
//@bodysub let mut label_created = None; => let mut label_created: Option<usize> = None;
//@bodysub let mut created_children = 0; => let mut created_children: usize = 0;
//@bodysub let mut skipped_children = 0; => let mut skipped_children: usize = 0;
//@bodysub visitor.start_subtree(terminal_idx); =>
//@bodysub visitor.finish_subtree(n_nodes); =>
//@bodysub visitor.finish_composition(); =>
//@bodysub let mut n_nodes = 0; =>
//@bodysub n_nodes += 1; =>
//@bodysub let child0 = edg.target_value; => let child0 = &lhs.tree.tree_node(child0_idx).unwrap().value;
//@bodysub lhs.tree.is_leaf(child0_idx).unwrap() => lhs.tree.tree_node(child0_idx).unwrap().isleaf
//@spec
    requires K >= 2, K < usize::MAX, k_two::<K>(),      // K == 2 (opaque here)
        lhs.tree.wf(), lhs.tree.root is Some, aff_shape_ok(lhs.a(), lhs.in_dim),
        old(rhs).tree.wf(), old(rhs).tree.root == Some(0usize), aff_shape_ok(old(rhs).a(), old(rhs).in_dim),
        // both operands live on the same input space and produce vectors of the same length
        lhs.in_dim == old(rhs).in_dim, out_all(lhs.a(), od),
        terminals_ok(old(rhs).a(), terminals@, od),
    ensures
        // C04 / C07 (structure) for `tree mul tree`, whatever the feasibility oracle answers:
        final(rhs).tree.wf(), final(rhs).tree.root == old(rhs).tree.root, final(rhs).in_dim == old(rhs).in_dim,
        aff_shape_ok(final(rhs).a(), final(rhs).in_dim),
        pr_outer(lhs.a(), old(rhs).a(), final(rhs).a(), terminals@, terminals@.len() as int),
        // C05 (caches through pruned tree arithmetic, whatever the feasibility oracle answers): witnesses that satisfied their path conditions up to 1e-8 before still do
        wit_inv(old(rhs).a(), old(rhs).a()) ==> wit_inv(final(rhs).a(), final(rhs).a()),
//@hint start
        let ghost rl = lhs.tree.root.unwrap();
        let ghost mut wset: Set<usize> = rhs.a().dom();
        proof { lemma_pr_outer_init(lhs.a(), rhs.a(), terminals@, od); lemma_gi_init(rhs.a()); }
//@hint loop 1 after
        proof { if wit_inv(old(rhs).a(), old(rhs).a()) { lemma_gi_final(old(rhs).a(), rhs.a(), wset); } }
//@loop 1
            invariant
                K >= 2, K < usize::MAX, k_two::<K>(), lhs.tree.wf(), lhs.tree.root is Some, aff_shape_ok(lhs.a(), lhs.in_dim),
                terminals_ok(old(rhs).a(), terminals@, od),
                0 <= __t <= terminals@.len(), rl == lhs.tree.root.unwrap(), lhs.in_dim == rhs.in_dim, out_all(lhs.a(), od),
                rhs.tree.wf(), rhs.tree.root == Some(0usize), rhs.in_dim == old(rhs).in_dim, aff_shape_ok(rhs.a(), rhs.in_dim),
                pr_outer(lhs.a(), old(rhs).a(), rhs.a(), terminals@, __t as int),
                old(rhs).tree.wf(), gi_inv(old(rhs).a(), rhs.a(), wset),
//@hint loop 1 start
            let ghost a_start = rhs.a();
            proof { lemma_pr_pick(lhs.a(), old(rhs).a(), a_start, terminals@, __t as int, od, rhs.in_dim); }
//@hint after rhs.update_node(terminal_idx, new_root_aff).unwrap();
            let ghost mut kind: Map<usize, usize> = Map::<usize, usize>::empty().insert(terminal_idx, rl);
            let ghost mut pend: Set<usize> = set![terminal_idx];
            proof {
                broadcast use axiom_array2_shape;
                lemma_pr_start(lhs.a(), a_start, rhs.a(), rl, terminal_idx, rhs.in_dim);
                lemma_shape_write(a_start, rhs.a(), rhs.in_dim, terminal_idx);
                lemma_gi_update(old(rhs).a(), a_start, rhs.a(), wset, terminal_idx);
            }
//@loop 2
                invariant
                    K >= 2, K < usize::MAX, k_two::<K>(), lhs.tree.wf(), lhs.tree.root is Some, aff_shape_ok(lhs.a(), lhs.in_dim),
                terminals_ok(old(rhs).a(), terminals@, od),
                    0 < __t <= terminals@.len(), terminal_idx == terminals@[__t - 1], rl == lhs.tree.root.unwrap(),
                    rhs.tree.wf(), rhs.tree.root == Some(0usize), rhs.in_dim == old(rhs).in_dim,
                    aff_shape_ok(a_start, rhs.in_dim), pr_outer(lhs.a(), old(rhs).a(), a_start, terminals@, __t - 1),
                    terminal_aff.ok(), terminal_aff.mat.ncols() == rhs.in_dim, terminal_aff.mat.nrows() == od, lhs.in_dim == rhs.in_dim, out_all(lhs.a(), od),
                    pr_inv(lhs.a(), rhs.a(), a_start, kind, pend, None, terminal_idx, rhs.in_dim), pr_stack(kind, pend, stack@),
                    shape_op(rhs.a(), rhs.in_dim),
                    old(rhs).tree.wf(), gi_inv(old(rhs).a(), rhs.a(), wset),
                ensures stack@.len() == 0,
//@hint loop 2 start
                proof {
                    lemma_pr_pop(lhs.a(), rhs.a(), a_start, kind, pend, terminal_idx, rhs.in_dim, stack@, (parent0_idx, parent1_idx));
                    pend = pend.remove(parent1_idx);
                    lemma_kid_seq_len(lhs.a()[parent0_idx].children, 0);
                    lemma_kid_seq_members(lhs.a()[parent0_idx].children, 0);
                    lemma_count_zero_no_kids(rhs.a()[parent1_idx], 0);
                    if !no_kids(lhs.a()[parent0_idx]) { lemma_rows_fit(lhs.a(), lhs.in_dim, parent0_idx, rhs.a()[parent1_idx].value.aff.mat.nrows() as int); }
                    lemma_gi_notdec(old(rhs).a(), rhs.a(), wset, parent1_idx);
                }
                let ghost p1_val = rhs.a()[parent1_idx].value;
//@loop 3
                    invariant
                        K >= 2, K < usize::MAX, k_two::<K>(), lhs.tree.wf(), lhs.tree.root is Some, aff_shape_ok(lhs.a(), lhs.in_dim),
                terminals_ok(old(rhs).a(), terminals@, od),
                        0 < __t <= terminals@.len(), terminal_idx == terminals@[__t - 1], rl == lhs.tree.root.unwrap(),
                    rhs.tree.wf(), rhs.tree.root == Some(0usize), rhs.in_dim == old(rhs).in_dim,
                    aff_shape_ok(a_start, rhs.in_dim), pr_outer(lhs.a(), old(rhs).a(), a_start, terminals@, __t - 1),
                    terminal_aff.ok(), terminal_aff.mat.ncols() == rhs.in_dim, terminal_aff.mat.nrows() == od, lhs.in_dim == rhs.in_dim, out_all(lhs.a(), od),
                        pr_inv(lhs.a(), rhs.a(), a_start, kind, pend, Some(parent1_idx), terminal_idx, rhs.in_dim), pr_stack(kind, pend, stack@),
                        kind.dom().contains(parent1_idx), kind[parent1_idx] == parent0_idx, !pend.contains(parent1_idx),
                        shape_op(rhs.a(), rhs.in_dim), rhs.a()[parent1_idx].value == p1_val, !no_kids(lhs.a()[parent0_idx]) ==> rows_fit::<K>(p1_val.aff.mat.nrows() as int),
                        lhs.a().dom().contains(parent0_idx), rhs.a().dom().contains(parent1_idx),
                        old(rhs).tree.wf(), gi_inv(old(rhs).a(), rhs.a(), wset), gi_notdec(old(rhs).a(), parent1_idx),
                        0 <= __i <= __kids@.len(), __kids@.len() == kid_seq(lhs.a()[parent0_idx].children, 0).len(), __kids@.len() <= K,
                        n_children0 == __kids@.len(),
                        forall|j: int| 0 <= j < __kids@.len() ==> (#[trigger] __kids@[j]).source_idx == parent0_idx
                            && __kids@[j].label == kid_seq(lhs.a()[parent0_idx].children, 0)[j].0 && __kids@[j].target_idx == kid_seq(lhs.a()[parent0_idx].children, 0)[j].1,
                        // bookkeeping of the pruning logic
                        created_children + skipped_children == __i, parent1_idx == 0 ==> skipped_children == 0,
                        count_some_from(rhs.a()[parent1_idx].children, 0) == created_children,
                        created_children == 0 ==> __i < __kids@.len() || __kids@.len() == 0,
                        created_children >= 1 ==> label_created is Some && label_created.unwrap() < K
                            && rhs.a()[parent1_idx].children[label_created.unwrap() as int] is Some
                            && pend.contains(rhs.a()[parent1_idx].children[label_created.unwrap() as int].unwrap()),
                        forall|j: int| __i <= j < __kids@.len() ==> rhs.a()[parent1_idx].children[(#[trigger] __kids@[j]).label as int].is_none(),
//@hint loop 3 start
                    let ghost a_pre = rhs.a();
                    let ghost st_pre = stack@;
                    proof {
                        lemma_kid_seq_members(lhs.a()[parent0_idx].children, 0);
                        lemma_kid_seq_len(lhs.a()[parent0_idx].children, 0);
                        lemma_count_zero_no_kids(lhs.a()[parent0_idx], 0);
                    }
//@hint after let child1_idx = rhs .tree .add_child_node(parent1_idx, label, AffContent::new(child1_aff)) .unwrap();
                    let ghost a_add = rhs.a();
                    proof {
                        broadcast use axiom_array2_shape;
                        assert forall|k: int| 0 <= k < K && k != label implies a_add[parent1_idx].children[k] == a_pre[parent1_idx].children[k] by {
                            assert(a_add[parent1_idx].children@[k] == a_pre[parent1_idx].children@[k]);
                        }
                        assert(a_add[parent1_idx].children[label as int] == Some(child1_idx)) by { assert(a_add[parent1_idx].children@[label as int] == Some(child1_idx)); }
                        lemma_count_set(a_pre[parent1_idx].children, a_add[parent1_idx].children, label as int, 0);
                        // the tree handed to the feasibility test is shape-consistent (needed by the real path polytope)
                        lemma_shape_add(a_pre, a_add, rhs.in_dim, parent1_idx, label, child1_idx);
                        lemma_gi_add(old(rhs).a(), a_pre, a_add, wset, parent1_idx, label, child1_idx);
                    }
//@hint after label_created = Some(label);
                        proof {
                            lemma_pr_keep(lhs.a(), a_pre, a_add, a_start, kind, pend, terminal_idx, rhs.in_dim, st_pre, parent1_idx, label, child0_idx, child1_idx);
                            assert(st_pre.push((child0_idx, child1_idx)) =~= stack@);
                            kind = kind.insert(child1_idx, child0_idx);
                            pend = pend.insert(child1_idx);
                        }
//@hint after rhs.tree.remove_child(parent1_idx, label);
                        proof {
                            lemma_prune_roundtrip(a_pre, a_add, rhs.a(), Some(0usize), parent1_idx, label, child1_idx);
                            assert(rhs.a() == a_pre);
                        }
//@hint after rhs.tree .merge_child_with_parent(parent1_idx, label_created.unwrap()) .unwrap();
                    proof {
                        lemma_pr_merge(lhs.a(), a_fin, rhs.a(), a_start, kind, pend, terminal_idx, rhs.in_dim, stack@, parent1_idx, label_created.unwrap(), Some(0usize));
                        lemma_shape_merge(a_fin, rhs.a(), rhs.in_dim, parent1_idx, label_created.unwrap());
                        kind = kind.remove(parent1_idx);
                        lemma_gi_merge(old(rhs).a(), a_fin, rhs.a(), wset, parent1_idx, label_created.unwrap(), false);
                        wset = wset.remove(parent1_idx);
                    }
//@hint loop 3 after
                let ghost a_fin = rhs.a();
                proof {
                    lemma_count_zero_no_kids(a_fin[parent1_idx], 0);
                    lemma_count_zero_no_kids(lhs.a()[parent0_idx], 0);
                    lemma_kid_seq_len(lhs.a()[parent0_idx].children, 0);
                    if !(created_children == 1 && created_children + skipped_children == K) {
                        lemma_pr_done(lhs.a(), a_fin, a_start, kind, pend, terminal_idx, rhs.in_dim, parent1_idx);
                    }
                }
//@hint loop 2 after
            proof {
                assert(stack@ =~= Seq::<(usize, usize)>::empty());
                lemma_pr_terminal_done(lhs.a(), old(rhs).a(), a_start, rhs.a(), terminals@, __t as int, od, kind, pend, rhs.in_dim);
                lemma_pr_shape(lhs.a(), rhs.a(), a_start, kind, pend, None, terminal_idx, rhs.in_dim, lhs.in_dim);
            }
//@end


// impl_op_schema!(Mul, mul, ..): the in-place operator `AffTree mul &AffTree` (rule M1: $trt := Mul, $op := mul; rule T1: verified as an inherent method)
//@fn src/pwl/impl_ops.rs | impl<const K: usize> $trt<&AffTree<K>> for AffTree<K> | $op | as=tree_mul
//@sigsub -> Self::Output => -> AffTree<K>
//@sigsub rhs: &AffTree<K> => rhs: &AffTree<K>, Ghost(od): Ghost<usize>
//@sigsub mut self => self
//@bodysub self => __s
//@bodysub let terminals = __s.tree.terminal_indices().collect_vec(); => let mut __s = self; let terminals = leaves_for(&__s.tree, Ghost(od));
//@bodysub AffTree::<K>::generic_composition_inplace( => AffTree::<K>::gci_mul(
//@bodysub terminals, $name {}, NoOpVis {} => terminals, Ghost(od)
//@spec
    requires K >= 2, K < usize::MAX, k_two::<K>(),      // K == 2 (opaque here)
        rhs.tree.wf(), rhs.tree.root is Some, aff_shape_ok(rhs.a(), rhs.in_dim),
        self.tree.wf(), self.tree.root == Some(0usize), aff_shape_ok(self.a(), self.in_dim),
        self.in_dim == rhs.in_dim, out_all(self.a(), od), out_all(rhs.a(), od),
    ensures
        r.tree.wf(), r.tree.root == Some(0usize), r.in_dim == self.in_dim, aff_shape_ok(r.a(), r.in_dim), out_all(r.a(), od),
        // C05: cached witnesses of the receiving operand that were right stay right (copied nodes start without cache)
        wit_inv(self.a(), self.a()) ==> wit_inv(r.a(), r.a()),
//@hint start
        proof { reveal(pr_outer); }
//@end

//@fn src/pwl/impl_composition.rs | impl<const K: usize> AffTree<K> | generic_composition_inplace | as=gci_div
//@attr #[verifier::exec_allows_no_decreases_clause]
//@sigsub <I, C, V> =>
//@sigsub terminals: I, => terminals: Vec<TreeIndex>, Ghost(od): Ghost<usize>,
//@sigsub _schema: C, =>
//@sigsub mut visitor: V, =>
//@sigsub where I: IntoIterator<Item = TreeIndex>, C: CompositionSchema, V: CompositionVisitor, =>
//@bodysub let iter = terminals.into_iter(); =>
//@bodysub visitor.start_composition(iter.size_hint().0); =>
//@bodysub for terminal_idx in iter { => let mut __t: usize = 0; while __t < terminals.len() { let terminal_idx = terminals[__t]; __t += 1;
//@bodysub terminal.value.aff.clone() => terminal.value.aff.clone_aff()
//@bodysub ndarray::OwnedRepr<f64> => OwnedRepr<f64>
//@bodysub C::update_terminal( => division_schema_update_terminal(
//@bodysub C::update_decision( => division_schema_update_decision(
//@bodysub C::explore( => arith_explore(
//@bodysub let mut label_created = None; => let mut label_created: Option<usize> = None;
//@bodysub let mut created_children = 0; => let mut created_children: usize = 0;
//@bodysub let mut skipped_children = 0; => let mut skipped_children: usize = 0;
//@bodysub visitor.start_subtree(terminal_idx); =>
//@bodysub visitor.finish_subtree(n_nodes); =>
//@bodysub visitor.finish_composition(); =>
//@bodysub let mut n_nodes = 0; =>
//@bodysub n_nodes += 1; =>
//@bodysub let child0 = edg.target_value; => let child0 = &lhs.tree.tree_node(child0_idx).unwrap().value;
//@bodysub lhs.tree.is_leaf(child0_idx).unwrap() => lhs.tree.tree_node(child0_idx).unwrap().isleaf
//@spec
    requires K >= 2, K < usize::MAX, k_two::<K>(),      // K == 2 (opaque here)
        lhs.tree.wf(), lhs.tree.root is Some, aff_shape_ok(lhs.a(), lhs.in_dim),
        old(rhs).tree.wf(), old(rhs).tree.root == Some(0usize), aff_shape_ok(old(rhs).a(), old(rhs).in_dim),
        // both operands live on the same input space and produce vectors of the same length
        lhs.in_dim == old(rhs).in_dim, out_all(lhs.a(), od), nonzero_leaves(lhs.a()),
        terminals_ok(old(rhs).a(), terminals@, od),
    ensures
        // C04 / C07 (structure) for `tree div tree`, whatever the feasibility oracle answers:
        final(rhs).tree.wf(), final(rhs).tree.root == old(rhs).tree.root, final(rhs).in_dim == old(rhs).in_dim,
        aff_shape_ok(final(rhs).a(), final(rhs).in_dim),
        pr_outer(lhs.a(), old(rhs).a(), final(rhs).a(), terminals@, terminals@.len() as int),
        // C05 (caches through pruned tree arithmetic, whatever the feasibility oracle answers): witnesses that satisfied their path conditions up to 1e-8 before still do
        wit_inv(old(rhs).a(), old(rhs).a()) ==> wit_inv(final(rhs).a(), final(rhs).a()),
//@hint start
        let ghost rl = lhs.tree.root.unwrap();
        let ghost mut wset: Set<usize> = rhs.a().dom();
        proof { lemma_pr_outer_init(lhs.a(), rhs.a(), terminals@, od); lemma_gi_init(rhs.a()); }
//@hint loop 1 after
        proof { if wit_inv(old(rhs).a(), old(rhs).a()) { lemma_gi_final(old(rhs).a(), rhs.a(), wset); } }
//@loop 1
            invariant
                K >= 2, K < usize::MAX, k_two::<K>(), lhs.tree.wf(), lhs.tree.root is Some, aff_shape_ok(lhs.a(), lhs.in_dim),
                terminals_ok(old(rhs).a(), terminals@, od),
                0 <= __t <= terminals@.len(), rl == lhs.tree.root.unwrap(), lhs.in_dim == rhs.in_dim, out_all(lhs.a(), od), nonzero_leaves(lhs.a()),
                rhs.tree.wf(), rhs.tree.root == Some(0usize), rhs.in_dim == old(rhs).in_dim, aff_shape_ok(rhs.a(), rhs.in_dim),
                pr_outer(lhs.a(), old(rhs).a(), rhs.a(), terminals@, __t as int),
                old(rhs).tree.wf(), gi_inv(old(rhs).a(), rhs.a(), wset),
//@hint loop 1 start
            let ghost a_start = rhs.a();
            proof { lemma_pr_pick(lhs.a(), old(rhs).a(), a_start, terminals@, __t as int, od, rhs.in_dim); }
//@hint after rhs.update_node(terminal_idx, new_root_aff).unwrap();
            let ghost mut kind: Map<usize, usize> = Map::<usize, usize>::empty().insert(terminal_idx, rl);
            let ghost mut pend: Set<usize> = set![terminal_idx];
            proof {
                broadcast use axiom_array2_shape;
                lemma_pr_start(lhs.a(), a_start, rhs.a(), rl, terminal_idx, rhs.in_dim);
                lemma_shape_write(a_start, rhs.a(), rhs.in_dim, terminal_idx);
                lemma_gi_update(old(rhs).a(), a_start, rhs.a(), wset, terminal_idx);
            }
//@loop 2
                invariant
                    K >= 2, K < usize::MAX, k_two::<K>(), lhs.tree.wf(), lhs.tree.root is Some, aff_shape_ok(lhs.a(), lhs.in_dim),
                terminals_ok(old(rhs).a(), terminals@, od),
                    0 < __t <= terminals@.len(), terminal_idx == terminals@[__t - 1], rl == lhs.tree.root.unwrap(),
                    rhs.tree.wf(), rhs.tree.root == Some(0usize), rhs.in_dim == old(rhs).in_dim,
                    aff_shape_ok(a_start, rhs.in_dim), pr_outer(lhs.a(), old(rhs).a(), a_start, terminals@, __t - 1),
                    terminal_aff.ok(), terminal_aff.mat.ncols() == rhs.in_dim, terminal_aff.mat.nrows() == od, lhs.in_dim == rhs.in_dim, out_all(lhs.a(), od), nonzero_leaves(lhs.a()),
                    pr_inv(lhs.a(), rhs.a(), a_start, kind, pend, None, terminal_idx, rhs.in_dim), pr_stack(kind, pend, stack@),
                    shape_op(rhs.a(), rhs.in_dim),
                    old(rhs).tree.wf(), gi_inv(old(rhs).a(), rhs.a(), wset),
                ensures stack@.len() == 0,
//@hint loop 2 start
                proof {
                    lemma_pr_pop(lhs.a(), rhs.a(), a_start, kind, pend, terminal_idx, rhs.in_dim, stack@, (parent0_idx, parent1_idx));
                    pend = pend.remove(parent1_idx);
                    lemma_kid_seq_len(lhs.a()[parent0_idx].children, 0);
                    lemma_kid_seq_members(lhs.a()[parent0_idx].children, 0);
                    lemma_count_zero_no_kids(rhs.a()[parent1_idx], 0);
                    if !no_kids(lhs.a()[parent0_idx]) { lemma_rows_fit(lhs.a(), lhs.in_dim, parent0_idx, rhs.a()[parent1_idx].value.aff.mat.nrows() as int); }
                    lemma_gi_notdec(old(rhs).a(), rhs.a(), wset, parent1_idx);
                }
                let ghost p1_val = rhs.a()[parent1_idx].value;
//@loop 3
                    invariant
                        K >= 2, K < usize::MAX, k_two::<K>(), lhs.tree.wf(), lhs.tree.root is Some, aff_shape_ok(lhs.a(), lhs.in_dim),
                terminals_ok(old(rhs).a(), terminals@, od),
                        0 < __t <= terminals@.len(), terminal_idx == terminals@[__t - 1], rl == lhs.tree.root.unwrap(),
                    rhs.tree.wf(), rhs.tree.root == Some(0usize), rhs.in_dim == old(rhs).in_dim,
                    aff_shape_ok(a_start, rhs.in_dim), pr_outer(lhs.a(), old(rhs).a(), a_start, terminals@, __t - 1),
                    terminal_aff.ok(), terminal_aff.mat.ncols() == rhs.in_dim, terminal_aff.mat.nrows() == od, lhs.in_dim == rhs.in_dim, out_all(lhs.a(), od), nonzero_leaves(lhs.a()),
                        pr_inv(lhs.a(), rhs.a(), a_start, kind, pend, Some(parent1_idx), terminal_idx, rhs.in_dim), pr_stack(kind, pend, stack@),
                        kind.dom().contains(parent1_idx), kind[parent1_idx] == parent0_idx, !pend.contains(parent1_idx),
                        shape_op(rhs.a(), rhs.in_dim), rhs.a()[parent1_idx].value == p1_val, !no_kids(lhs.a()[parent0_idx]) ==> rows_fit::<K>(p1_val.aff.mat.nrows() as int),
                        lhs.a().dom().contains(parent0_idx), rhs.a().dom().contains(parent1_idx),
                        old(rhs).tree.wf(), gi_inv(old(rhs).a(), rhs.a(), wset), gi_notdec(old(rhs).a(), parent1_idx),
                        0 <= __i <= __kids@.len(), __kids@.len() == kid_seq(lhs.a()[parent0_idx].children, 0).len(), __kids@.len() <= K,
                        n_children0 == __kids@.len(),
                        forall|j: int| 0 <= j < __kids@.len() ==> (#[trigger] __kids@[j]).source_idx == parent0_idx
                            && __kids@[j].label == kid_seq(lhs.a()[parent0_idx].children, 0)[j].0 && __kids@[j].target_idx == kid_seq(lhs.a()[parent0_idx].children, 0)[j].1,
                        // bookkeeping of the pruning logic
                        created_children + skipped_children == __i, parent1_idx == 0 ==> skipped_children == 0,
                        count_some_from(rhs.a()[parent1_idx].children, 0) == created_children,
                        created_children == 0 ==> __i < __kids@.len() || __kids@.len() == 0,
                        created_children >= 1 ==> label_created is Some && label_created.unwrap() < K
                            && rhs.a()[parent1_idx].children[label_created.unwrap() as int] is Some
                            && pend.contains(rhs.a()[parent1_idx].children[label_created.unwrap() as int].unwrap()),
                        forall|j: int| __i <= j < __kids@.len() ==> rhs.a()[parent1_idx].children[(#[trigger] __kids@[j]).label as int].is_none(),
//@hint loop 3 start
                    let ghost a_pre = rhs.a();
                    let ghost st_pre = stack@;
                    proof {
                        lemma_kid_seq_members(lhs.a()[parent0_idx].children, 0);
                        lemma_kid_seq_len(lhs.a()[parent0_idx].children, 0);
                        lemma_count_zero_no_kids(lhs.a()[parent0_idx], 0);
                    }
//@hint after let child1_idx = rhs .tree .add_child_node(parent1_idx, label, AffContent::new(child1_aff)) .unwrap();
                    let ghost a_add = rhs.a();
                    proof {
                        broadcast use axiom_array2_shape;
                        assert forall|k: int| 0 <= k < K && k != label implies a_add[parent1_idx].children[k] == a_pre[parent1_idx].children[k] by {
                            assert(a_add[parent1_idx].children@[k] == a_pre[parent1_idx].children@[k]);
                        }
                        assert(a_add[parent1_idx].children[label as int] == Some(child1_idx)) by { assert(a_add[parent1_idx].children@[label as int] == Some(child1_idx)); }
                        lemma_count_set(a_pre[parent1_idx].children, a_add[parent1_idx].children, label as int, 0);
                        // the tree handed to the feasibility test is shape-consistent (needed by the real path polytope)
                        lemma_shape_add(a_pre, a_add, rhs.in_dim, parent1_idx, label, child1_idx);
                        lemma_gi_add(old(rhs).a(), a_pre, a_add, wset, parent1_idx, label, child1_idx);
                    }
//@hint after label_created = Some(label);
                        proof {
                            lemma_pr_keep(lhs.a(), a_pre, a_add, a_start, kind, pend, terminal_idx, rhs.in_dim, st_pre, parent1_idx, label, child0_idx, child1_idx);
                            assert(st_pre.push((child0_idx, child1_idx)) =~= stack@);
                            kind = kind.insert(child1_idx, child0_idx);
                            pend = pend.insert(child1_idx);
                        }
//@hint after rhs.tree.remove_child(parent1_idx, label);
                        proof {
                            lemma_prune_roundtrip(a_pre, a_add, rhs.a(), Some(0usize), parent1_idx, label, child1_idx);
                            assert(rhs.a() == a_pre);
                        }
//@hint after rhs.tree .merge_child_with_parent(parent1_idx, label_created.unwrap()) .unwrap();
                    proof {
                        lemma_pr_merge(lhs.a(), a_fin, rhs.a(), a_start, kind, pend, terminal_idx, rhs.in_dim, stack@, parent1_idx, label_created.unwrap(), Some(0usize));
                        lemma_shape_merge(a_fin, rhs.a(), rhs.in_dim, parent1_idx, label_created.unwrap());
                        kind = kind.remove(parent1_idx);
                        lemma_gi_merge(old(rhs).a(), a_fin, rhs.a(), wset, parent1_idx, label_created.unwrap(), false);
                        wset = wset.remove(parent1_idx);
                    }
//@hint loop 3 after
                let ghost a_fin = rhs.a();
                proof {
                    lemma_count_zero_no_kids(a_fin[parent1_idx], 0);
                    lemma_count_zero_no_kids(lhs.a()[parent0_idx], 0);
                    lemma_kid_seq_len(lhs.a()[parent0_idx].children, 0);
                    if !(created_children == 1 && created_children + skipped_children == K) {
                        lemma_pr_done(lhs.a(), a_fin, a_start, kind, pend, terminal_idx, rhs.in_dim, parent1_idx);
                    }
                }
//@hint loop 2 after
            proof {
                assert(stack@ =~= Seq::<(usize, usize)>::empty());
                lemma_pr_terminal_done(lhs.a(), old(rhs).a(), a_start, rhs.a(), terminals@, __t as int, od, kind, pend, rhs.in_dim);
                lemma_pr_shape(lhs.a(), rhs.a(), a_start, kind, pend, None, terminal_idx, rhs.in_dim, lhs.in_dim);
            }
//@end


// impl_op_schema!(Div, div, ..): the in-place operator `AffTree div &AffTree` (rule M1: $trt := Div, $op := div; rule T1: verified as an inherent method)
//@fn src/pwl/impl_ops.rs | impl<const K: usize> $trt<&AffTree<K>> for AffTree<K> | $op | as=tree_div
//@sigsub -> Self::Output => -> AffTree<K>
//@sigsub rhs: &AffTree<K> => rhs: &AffTree<K>, Ghost(od): Ghost<usize>
//@sigsub mut self => self
//@bodysub self => __s
//@bodysub let terminals = __s.tree.terminal_indices().collect_vec(); => let mut __s = self; let terminals = leaves_for(&__s.tree, Ghost(od));
//@bodysub AffTree::<K>::generic_composition_inplace( => AffTree::<K>::gci_div(
//@bodysub terminals, $name {}, NoOpVis {} => terminals, Ghost(od)
//@spec
    requires K >= 2, K < usize::MAX, k_two::<K>(),      // K == 2 (opaque here)
        rhs.tree.wf(), rhs.tree.root is Some, aff_shape_ok(rhs.a(), rhs.in_dim),
        self.tree.wf(), self.tree.root == Some(0usize), aff_shape_ok(self.a(), self.in_dim),
        self.in_dim == rhs.in_dim, out_all(self.a(), od), out_all(rhs.a(), od), nonzero_leaves(rhs.a()),
    ensures
        r.tree.wf(), r.tree.root == Some(0usize), r.in_dim == self.in_dim, aff_shape_ok(r.a(), r.in_dim), out_all(r.a(), od),
        // C05: cached witnesses of the receiving operand that were right stay right (copied nodes start without cache)
        wit_inv(self.a(), self.a()) ==> wit_inv(r.a(), r.a()),
//@hint start
        proof { reveal(pr_outer); }
//@end

}

} // verus!
fn main() {}
