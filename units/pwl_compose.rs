// unit pwl_compose — the grafting loop of composition (src/pwl/impl_composition.rs: generic_composition_inplace),
// specialised to the un-pruned schema FunctionComposition and the no-op visitor (rule G1), as used by compose::<false,false>
use vstd::prelude::*;
use std::marker::PhantomData;
use std::mem;
use std::ops::{Add, Sub, Mul, Div, Neg};
verus! {
global size_of usize == 8;

//@include prelude/inc_pwl_core.rs
//@include prelude/tol_spec.rs
//@include prelude/wit_core_spec.rs
//@include prelude/wit_grow_spec.rs

impl<N, const K: usize> Tree<N, K> {
// proved in unit tree_graph; only needed here so that the (unreachable) pruning branches type-check
//@fn src/tree/graph.rs | impl<N, const K: usize> Tree<N, K> | remove_child
//@trusted
//@spec
    requires old(self).wf(), label < K, old(self).arena@.dom().len() <= i32::MAX,
        old(self).arena@.dom().contains(parent), old(self).arena@[parent].children[label as int] is Some,
    ensures final(self).wf(), final(self).root == old(self).root
//@end
//@fn src/tree/graph.rs | impl<N, const K: usize> Tree<N, K> | merge_child_with_parent
//@trusted
//@spec
    requires old(self).wf(), label < K, old(self).arena@.dom().contains(parent_idx), count_some_from(old(self).arena@[parent_idx].children, 0) == 1,
    ensures final(self).root == old(self).root
//@end
}

// update_decision / update_terminal of the schema (verified in unit pwl_schema with the same contracts)
//@fn src/pwl/impl_composition.rs | impl CompositionSchema for FunctionComposition | update_decision | as=function_composition_update_decision
//@spec
    requires original.ok(), context.ok(), original.mat.ncols() == context.mat.nrows()
    ensures r.ok(), r.mat.ncols() == context.mat.ncols(), r.mat.nrows() == original.mat.nrows(),
        forall|x: V, i: int| x.len() == context.mat.ncols() && 0 <= i < original.mat.nrows() ==> (#[trigger] r.row_sat(i, x) <==> original.row_sat(i, context.ap(x))),
//@hint start
        broadcast use axiom_array2_shape;
//@hint end
        proof {
            let rm = mm(original.mat.m(), context.mat.m(), context.mat.ncols());
            let rb = vadd(vneg(mv(original.mat.m(), context.bias.v())), original.bias.v());
            assert forall|x: V, i: int| x.len() == context.mat.ncols() && 0 <= i < original.mat.nrows() implies
                (#[trigger] dotp(rm[i], x, x.len() as int) <= rb[i] <==> original.row_sat(i, context.ap(x))) by {
                lemma_update_decision_raw(original.mat.m(), original.bias.v(), context.mat.m(), context.bias.v(), original.mat.ncols(), context.mat.ncols(), x, i);
            }
        }
//@end
//@fn src/pwl/impl_composition.rs | impl CompositionSchema for FunctionComposition | update_terminal | as=function_composition_update_terminal
//@spec
    requires original.ok(), context.ok(), original.mat.ncols() == context.mat.nrows()
    ensures r.ok(), r.mat.ncols() == context.mat.ncols(), r.mat.nrows() == original.mat.nrows(),
        forall|x: V| x.len() == context.mat.ncols() ==> #[trigger] r.ap(x) =~= original.ap(context.ap(x)),
//@end

pub proof fn lemma_update_decision_raw(m: M, b: V, f: M, cb: V, k: int, n: int, x: V, i: int)
    requires m_ok(m, m.len() as int, k), m_ok(f, k, n), cb.len() == k, b.len() == m.len(), x.len() == n, n >= 0, 0 <= i < m.len()
    ensures dotp(mm(m, f, n)[i], x, n) <= vadd(vneg(mv(m, cb)), b)[i] <==> dotp(m[i], vadd(mv(f, x), cb), k) <= b[i]
{
    lemma_mm_mv(m, f, x, n);
    lemma_mv_add_right(m, mv(f, x), cb);
    let y = vadd(mv(f, x), cb);
    assert(mv(mm(m, f, n), x)[i] == dotp(mm(m, f, n)[i], x, n));
    assert(mv(m, y)[i] == dotp(m[i], y, y.len() as int));
    assert(mv(m, y)[i] == vadd(mv(m, mv(f, x)), mv(m, cb))[i]);
}

impl<const K: usize> AffTree<K> {
//@fn src/pwl/afftree.rs | impl<const K: usize> AffTree<K> | update_node
//@spec
    requires old(self).tree.wf()
    ensures
        final(self).tree.root == old(self).tree.root, final(self).in_dim == old(self).in_dim,
        !old(self).a().dom().contains(node) ==> r is Err && final(self).a() == old(self).a(),
        old(self).a().dom().contains(node) ==> r is Ok && r->Ok_0 == old(self).a()[node].value.aff
            && same_shape(old(self).a(), final(self).a())
            && final(self).a()[node].value.aff == aff && final(self).a()[node].value.state == old(self).a()[node].value.state
            && forall|i: usize| old(self).a().dom().contains(i) && i != node ==> final(self).a()[i] == old(self).a()[i],
        same_shape(old(self).a(), final(self).a()) ==> final(self).tree.wf(),
//@hint start
        proof { lemma_same_shape_wf_all(old(self).a(), old(self).tree.root); }
//@end
}


// ---------------------------------------------------------------- specification of grafting
// the listed terminals are distinct leaves of the tree whose output feeds the left operand (dimension dl)
#[verifier::opaque]
pub open spec fn terminals_ok<const K: usize>(a: AArena<K>, ts: Seq<usize>, dl: usize) -> bool {
    &&& forall|j: int| 0 <= j < ts.len() ==> a.dom().contains(#[trigger] ts[j]) && a[ts[j]].isleaf && a[ts[j]].value.aff.mat.nrows() == dl
    &&& forall|j1: int, j2: int| 0 <= j1 < j2 < ts.len() ==> ts[j1] != ts[j2]
}
// nodes of the tree as it was before keep their index and parent; decisions and unlisted terminals are untouched
#[verifier::opaque]
pub open spec fn old_nodes_kept<const K: usize>(a0: AArena<K>, a1: AArena<K>, ts: Seq<usize>) -> bool {
    forall|i: usize| #![trigger a1[i]] #![trigger a0.dom().contains(i)] a0.dom().contains(i) ==> a1.dom().contains(i) && a1[i].parent == a0[i].parent
        && (!a0[i].isleaf || !ts.contains(i) ==> a1[i] == a0[i])
}
// a1 extends a0 and differs from it on old indices at most at t
#[verifier::opaque]
pub open spec fn frame_except<const K: usize>(a0: AArena<K>, a1: AArena<K>, t: usize) -> bool {
    forall|i: usize| #![trigger a1[i]] #![trigger a0.dom().contains(i)] a0.dom().contains(i) ==> a1.dom().contains(i) && a1[i].parent == a0[i].parent && (i != t ==> a1[i] == a0[i])
}
// relation between a node of the left operand and its copy below a terminal with function f
pub open spec fn copy_ok<const K: usize>(src: AffNode<K>, cp: AffNode<K>, fm: M, fb: V, in_dim: usize) -> bool {
    &&& cp.value.aff.ok() && cp.value.aff.mat.ncols() == in_dim && cp.value.aff.mat.nrows() == src.value.aff.mat.nrows()
    &&& src.isleaf ==> forall|x: V| x.len() == in_dim ==> #[trigger] cp.value.aff.ap(x) == src.value.aff.ap(vadd(mv(fm, x), fb))
    &&& !src.isleaf ==> forall|x: V, i: int| x.len() == in_dim && 0 <= i < src.value.aff.mat.nrows() ==> (#[trigger] cp.value.aff.row_sat(i, x) <==> src.value.aff.row_sat(i, vadd(mv(fm, x), fb)))
}
// the copy has the same leaf flag and its child slots are the images of the source's child slots
pub open spec fn kids_mirror<const K: usize>(src: AffNode<K>, cp: AffNode<K>, phi: Map<usize, usize>) -> bool {
    &&& cp.isleaf == src.isleaf
    &&& forall|l: int| 0 <= l < K ==> match #[trigger] src.children[l] {
            None => cp.children[l].is_none(),
            Some(c) => phi.dom().contains(c) && cp.children[l] == Some(phi[c]),
        }
}
// ghost state of grafting one copy of the left operand (arena al, root rl) below terminal t (function f):
// phi maps the lhs nodes copied so far to their copies, `done` are the lhs nodes whose children have been copied,
// `cur` is the node whose children are being copied
#[verifier::opaque]
pub open spec fn graft_inv<const K: usize>(al: AArena<K>, a: AArena<K>, dom0: Set<usize>, phi: Map<usize, usize>, done: Set<usize>, cur: Option<usize>,
    rl: usize, t: usize, fm: M, fb: V, in_dim: usize) -> bool
{
    &&& phi.dom().contains(rl) && phi[rl] == t
    &&& forall|p: usize| #[trigger] phi.dom().contains(p) ==> al.dom().contains(p) && a.dom().contains(phi[p]) && (phi[p] == t || !dom0.contains(phi[p]))
            && copy_ok(al[p], a[phi[p]], fm, fb, in_dim)
    &&& forall|p: usize, q: usize| phi.dom().contains(p) && phi.dom().contains(q) && p != q ==> #[trigger] phi[p] != #[trigger] phi[q]
    &&& forall|p: usize| #[trigger] done.contains(p) ==> phi.dom().contains(p) && kids_mirror(al[p], a[phi[p]], phi)
    &&& forall|p: usize| #[trigger] phi.dom().contains(p) && !done.contains(p) && Some(p) != cur ==> a[phi[p]].isleaf && no_kids(a[phi[p]])
    &&& forall|q: usize| #[trigger] phi.dom().contains(q) && q != rl ==> al[q].parent is Some && (done.contains(al[q].parent.unwrap()) || cur == Some(al[q].parent.unwrap()))
}
#[verifier::opaque]
pub open spec fn stack_ok(phi: Map<usize, usize>, done: Set<usize>, cur: Option<usize>, stack: Seq<(usize, usize)>) -> bool {
    &&& forall|j: int| 0 <= j < stack.len() ==> phi.dom().contains((#[trigger] stack[j]).0) && phi[stack[j].0] == stack[j].1 && !done.contains(stack[j].0) && Some(stack[j].0) != cur
    &&& forall|j1: int, j2: int| 0 <= j1 < j2 < stack.len() ==> (#[trigger] stack[j1]).0 != (#[trigger] stack[j2]).0
    &&& forall|p: usize| #[trigger] phi.dom().contains(p) && !done.contains(p) && Some(p) != cur ==> exists|j: int| 0 <= j < stack.len() && (#[trigger] stack[j]).0 == p
}
// a complete copy of the left operand hangs below t
#[verifier::opaque]
pub open spec fn grafted<const K: usize>(al: AArena<K>, a: AArena<K>, dom0: Set<usize>, rl: usize, t: usize, fm: M, fb: V, in_dim: usize) -> bool {
    exists|phi: Map<usize, usize>| #[trigger] graft_inv(al, a, dom0, phi, phi.dom(), None, rl, t, fm, fb, in_dim)
}
// the function the result has to denote: route through the old tree; at a listed terminal continue in the left operand
pub open spec fn comp_fn<const K: usize>(a0: AArena<K>, h0: Map<usize, nat>, ts: Seq<usize>, al: AArena<K>, hl: Map<usize, nat>, rl: usize, idx: usize, x: V) -> Option<V>
    decreases h0[idx]
{
    let nd = a0[idx];
    if nd.isleaf {
        if ts.contains(idx) { tree_fn(al, hl, rl, nd.value.aff.ap(x)) } else { Some(nd.value.aff.ap(x)) }
    } else {
        let l = decide(&nd.value.aff, x);
        if 0 <= l < K && nd.children[l].is_some() && h0[nd.children[l].unwrap()] < h0[idx] {
            comp_fn(a0, h0, ts, al, hl, rl, nd.children[l].unwrap(), x)
        } else { None }
    }
}
// ---------------------------------------------------------------- lemmas
pub proof fn lemma_label_val_eq(a: &AffFunc, b: &AffFunc, x: V, y: V, n: int)
    requires forall|i: int| 0 <= i < n ==> (#[trigger] a.row_sat(i, x) <==> b.row_sat(i, y))
    ensures label_val(a, x, n) == label_val(b, y, n)
    decreases n
{
    reveal(terminals_ok); reveal(old_nodes_kept); reveal(frame_except); reveal(graft_inv); reveal(stack_ok); reveal(grafted);
    if n > 0 { lemma_label_val_eq(a, b, x, y, n - 1); }
}

// start: the terminal itself is the copy of the root
pub proof fn lemma_graft_init<const K: usize>(al: AArena<K>, a: AArena<K>, dom0: Set<usize>, rl: usize, t: usize, fm: M, fb: V, in_dim: usize)
    requires al.dom().contains(rl), a.dom().contains(t), a[t].isleaf, no_kids(a[t]), copy_ok(al[rl], a[t], fm, fb, in_dim)
    ensures graft_inv(al, a, dom0, Map::<usize, usize>::empty().insert(rl, t), Set::<usize>::empty(), None, rl, t, fm, fb, in_dim),
        stack_ok(Map::<usize, usize>::empty().insert(rl, t), Set::<usize>::empty(), None, seq![(rl, t)])
{
    reveal(terminals_ok); reveal(old_nodes_kept); reveal(frame_except); reveal(graft_inv); reveal(stack_ok); reveal(grafted);
    let phi = Map::<usize, usize>::empty().insert(rl, t);
    let st = seq![(rl, t)];
    assert forall|p: usize| #[trigger] phi.dom().contains(p) implies exists|j: int| 0 <= j < st.len() && (#[trigger] st[j]).0 == p by { assert(st[0].0 == rl); }
}

// pop: the popped node becomes the current one; none of its children has a copy yet
pub proof fn lemma_graft_pop<const K: usize>(al: AArena<K>, a: AArena<K>, dom0: Set<usize>, phi: Map<usize, usize>, done: Set<usize>,
    rl: usize, t: usize, fm: M, fb: V, in_dim: usize, st: Seq<(usize, usize)>)
    requires graft_inv(al, a, dom0, phi, done, None, rl, t, fm, fb, in_dim), stack_ok(phi, done, None, st), st.len() > 0,
        kids_ok(al), root_ok(al, Some(rl)),
    ensures graft_inv(al, a, dom0, phi, done, Some(st.last().0), rl, t, fm, fb, in_dim), stack_ok(phi, done, Some(st.last().0), st.drop_last()),
        phi.dom().contains(st.last().0), phi[st.last().0] == st.last().1, !done.contains(st.last().0),
        a[st.last().1].isleaf && no_kids(a[st.last().1]),
        forall|l: int| 0 <= l < K && (#[trigger] al[st.last().0].children[l]).is_some() ==> !phi.dom().contains(al[st.last().0].children[l].unwrap()),
{
    reveal(terminals_ok); reveal(old_nodes_kept); reveal(frame_except); reveal(graft_inv); reveal(stack_ok); reveal(grafted);
    let p0 = st.last().0;
    let rest = st.drop_last();
    assert(st[st.len() - 1] == st.last());
    assert forall|j: int| 0 <= j < rest.len() implies phi.dom().contains((#[trigger] rest[j]).0) && phi[rest[j].0] == rest[j].1 && !done.contains(rest[j].0) && Some(rest[j].0) != Some(p0) by {
        assert(rest[j] == st[j]);
    }
    assert forall|j1: int, j2: int| 0 <= j1 < j2 < rest.len() implies (#[trigger] rest[j1]).0 != (#[trigger] rest[j2]).0 by { assert(rest[j1] == st[j1] && rest[j2] == st[j2]); }
    assert forall|p: usize| #[trigger] phi.dom().contains(p) && !done.contains(p) && Some(p) != Some(p0) implies exists|j: int| 0 <= j < rest.len() && (#[trigger] rest[j]).0 == p by {
        let j = choose|j: int| 0 <= j < st.len() && (#[trigger] st[j]).0 == p;
        assert(j < st.len() - 1);
        assert(rest[j] == st[j]);
    }
    assert forall|l: int| 0 <= l < K && (#[trigger] al[p0].children[l]).is_some() implies !phi.dom().contains(al[p0].children[l].unwrap()) by {
        let c = al[p0].children[l].unwrap();
        assert(al[c].parent == Some(p0));
        if phi.dom().contains(c) { assert(c != rl); }
    }
}

// one child copied
pub proof fn lemma_graft_child<const K: usize>(al: AArena<K>, a_s: AArena<K>, a0: AArena<K>, a1: AArena<K>, phi: Map<usize, usize>, done: Set<usize>,
    rl: usize, t: usize, fm: M, fb: V, in_dim: usize, st: Seq<(usize, usize)>, p0: usize, label: usize, c0: usize, c: usize)
    requires graft_inv(al, a0, a_s.dom(), phi, done, Some(p0), rl, t, fm, fb, in_dim), stack_ok(phi, done, Some(p0), st),
        phi.dom().contains(p0), !done.contains(p0), !phi.dom().contains(c0),
        kids_ok(al), label < K, al.dom().contains(p0), al[p0].children[label as int] == Some(c0),
        frame_except(a_s, a0, t),
        child_added(a0, a1, phi[p0], label, c), a1[phi[p0]].value == a0[phi[p0]].value, copy_ok(al[c0], a1[c], fm, fb, in_dim),
    ensures graft_inv(al, a1, a_s.dom(), phi.insert(c0, c), done, Some(p0), rl, t, fm, fb, in_dim), stack_ok(phi.insert(c0, c), done, Some(p0), st.push((c0, c))),
        frame_except(a_s, a1, t),
{
    reveal(terminals_ok); reveal(old_nodes_kept); reveal(frame_except); reveal(graft_inv); reveal(stack_ok); reveal(grafted);
    let p1 = phi[p0];
    let phi1 = phi.insert(c0, c);
    let st1 = st.push((c0, c));
    assert(al.dom().contains(c0) && al[c0].parent == Some(p0));
    assert(c0 != p0);
    assert(p1 == t || !a_s.dom().contains(p1));
    assert(!a_s.dom().contains(c));
    assert forall|i: usize| #![trigger a1[i]] a_s.dom().contains(i) implies a1.dom().contains(i) && a1[i].parent == a_s[i].parent && (i != t ==> a1[i] == a_s[i]) by {
        assert(a0[i].parent == a_s[i].parent);
        if i != p1 { assert(a1[i] == a0[i]); }
    }
    assert forall|p: usize| #[trigger] phi1.dom().contains(p) implies al.dom().contains(p) && a1.dom().contains(phi1[p]) && (phi1[p] == t || !a_s.dom().contains(phi1[p]))
            && copy_ok(al[p], a1[phi1[p]], fm, fb, in_dim) by {
        if p != c0 {
            assert(phi.dom().contains(p));
            if phi[p] != p1 { assert(a1[phi[p]] == a0[phi[p]]); }
        }
    }
    assert forall|p: usize, q: usize| phi1.dom().contains(p) && phi1.dom().contains(q) && p != q implies #[trigger] phi1[p] != #[trigger] phi1[q] by {
        if p != c0 { assert(phi.dom().contains(p)); }
        if q != c0 { assert(phi.dom().contains(q)); }
    }
    assert forall|p: usize| #[trigger] done.contains(p) implies phi1.dom().contains(p) && kids_mirror(al[p], a1[phi1[p]], phi1) by {
        assert(phi.dom().contains(p) && p != p0 && p != c0);
        assert(phi[p] != p1);
        assert(a1[phi[p]] == a0[phi[p]]);
        assert(kids_mirror(al[p], a0[phi[p]], phi));
        assert forall|l: int| 0 <= l < K implies match #[trigger] al[p].children[l] {
            None => a1[phi1[p]].children[l].is_none(),
            Some(cc) => phi1.dom().contains(cc) && a1[phi1[p]].children[l] == Some(phi1[cc]),
        } by {}
    }
    assert forall|p: usize| #[trigger] phi1.dom().contains(p) && !done.contains(p) && Some(p) != Some(p0) implies a1[phi1[p]].isleaf && no_kids(a1[phi1[p]]) by {
        if p != c0 {
            assert(phi.dom().contains(p));
            assert(phi[p] != p1);
            assert(a1[phi[p]] == a0[phi[p]]);
        }
    }
    assert forall|q: usize| #[trigger] phi1.dom().contains(q) && q != rl implies al[q].parent is Some && (done.contains(al[q].parent.unwrap()) || Some(p0) == Some(al[q].parent.unwrap())) by {
        if q != c0 { assert(phi.dom().contains(q)); }
    }
    assert forall|j: int| 0 <= j < st1.len() implies phi1.dom().contains((#[trigger] st1[j]).0) && phi1[st1[j].0] == st1[j].1 && !done.contains(st1[j].0) && Some(st1[j].0) != Some(p0) by {
        if j < st.len() { assert(st1[j] == st[j]); assert(phi.dom().contains(st[j].0)); }
        else { assert(st1[j] == (c0, c)); if done.contains(c0) { assert(phi.dom().contains(c0)); } }
    }
    assert forall|j1: int, j2: int| 0 <= j1 < j2 < st1.len() implies (#[trigger] st1[j1]).0 != (#[trigger] st1[j2]).0 by {
        assert(st1[j1] == st[j1]);
        assert(phi.dom().contains(st[j1].0));
        if j2 < st.len() { assert(st1[j2] == st[j2]); }
    }
    assert forall|p: usize| #[trigger] phi1.dom().contains(p) && !done.contains(p) && Some(p) != Some(p0) implies exists|j: int| 0 <= j < st1.len() && (#[trigger] st1[j]).0 == p by {
        if p == c0 { assert(st1[st.len() as int].0 == c0); }
        else {
            assert(phi.dom().contains(p));
            let j = choose|j: int| 0 <= j < st.len() && (#[trigger] st[j]).0 == p;
            assert(st1[j] == st[j]);
        }
    }
}

// all children of the current node copied: it is done
pub proof fn lemma_graft_done<const K: usize>(al: AArena<K>, a: AArena<K>, dom0: Set<usize>, phi: Map<usize, usize>, done: Set<usize>,
    rl: usize, t: usize, fm: M, fb: V, in_dim: usize, st: Seq<(usize, usize)>, p0: usize)
    requires graft_inv(al, a, dom0, phi, done, Some(p0), rl, t, fm, fb, in_dim), stack_ok(phi, done, Some(p0), st),
        phi.dom().contains(p0), kids_mirror(al[p0], a[phi[p0]], phi),
    ensures graft_inv(al, a, dom0, phi, done.insert(p0), None, rl, t, fm, fb, in_dim), stack_ok(phi, done.insert(p0), None, st),
{
    reveal(terminals_ok); reveal(old_nodes_kept); reveal(frame_except); reveal(graft_inv); reveal(stack_ok); reveal(grafted);
    let done1 = done.insert(p0);
    assert forall|p: usize| #[trigger] phi.dom().contains(p) && !done1.contains(p) implies exists|j: int| 0 <= j < st.len() && (#[trigger] st[j]).0 == p by {
        assert(Some(p) != Some(p0));
    }
}


// the shape invariant of C04 survives copying a child
pub proof fn lemma_shape_child<const K: usize>(al: AArena<K>, a0: AArena<K>, a1: AArena<K>, in_dim: usize, dl: usize, p0: usize, p1: usize, label: usize, c: usize)
    requires aff_shape_ok(a0, in_dim), aff_shape_ok(al, dl), child_added(a0, a1, p1, label, c), a1[p1].value == a0[p1].value,
        a1[c].value.aff.ok(), a1[c].value.aff.mat.ncols() == in_dim, al.dom().contains(p0), !al[p0].isleaf,
        a0[p1].value.aff.mat.nrows() == al[p0].value.aff.mat.nrows(),
    ensures aff_shape_ok(a1, in_dim)
{
    reveal(terminals_ok); reveal(old_nodes_kept); reveal(frame_except); reveal(graft_inv); reveal(stack_ok); reveal(grafted);
    assert forall|i: usize| #![trigger a1[i].value] a1.dom().contains(i) implies a1[i].value.aff.ok() && a1[i].value.aff.mat.ncols() == in_dim
        && (!a1[i].isleaf ==> 1 <= a1[i].value.aff.mat.nrows() < 16 && (1usize << (a1[i].value.aff.mat.nrows() as usize)) <= K) by {
        if i != c && i != p1 { assert(a1[i] == a0[i]); }
        if i == p1 { assert(a0[p1].value.aff.ok()); assert(al[p0].value.aff.ok()); }
    }
}

// from the bookkeeping of the children loop to kids_mirror
pub proof fn lemma_mirror_from_kids<const K: usize>(src: AffNode<K>, cp: AffNode<K>, phi: Map<usize, usize>)
    requires
        src.isleaf <==> no_kids(src),
        cp.isleaf <==> kid_seq(src.children, 0).len() == 0,
        forall|j: int| 0 <= j < kid_seq(src.children, 0).len() ==> phi.dom().contains((#[trigger] kid_seq(src.children, 0)[j]).1)
            && cp.children[kid_seq(src.children, 0)[j].0 as int] == Some(phi[kid_seq(src.children, 0)[j].1]),
        forall|l: int| 0 <= l < K && (#[trigger] cp.children[l]).is_some() ==> exists|j: int| 0 <= j < kid_seq(src.children, 0).len() && (#[trigger] kid_seq(src.children, 0)[j]).0 == l,
    ensures kids_mirror(src, cp, phi)
{
    reveal(terminals_ok); reveal(old_nodes_kept); reveal(frame_except); reveal(graft_inv); reveal(stack_ok); reveal(grafted);
    let ks = kid_seq(src.children, 0);
    lemma_kid_seq_members(src.children, 0);
    lemma_kid_seq_len(src.children, 0);
    lemma_count_zero_no_kids(src, 0);
    assert forall|l: int| 0 <= l < K implies match #[trigger] src.children[l] {
        None => cp.children[l].is_none(),
        Some(c) => phi.dom().contains(c) && cp.children[l] == Some(phi[c]),
    } by {
        match src.children[l] {
            None => {
                if cp.children[l].is_some() {
                    let j = choose|j: int| 0 <= j < ks.len() && (#[trigger] ks[j]).0 == l;
                    assert(src.children[ks[j].0 as int] == Some(ks[j].1));
                }
            }
            Some(c) => {
                let j = choose|j: int| 0 <= j < ks.len() && ks[j] == (l as usize, src.children[l].unwrap());
                assert(ks[j].0 == l && ks[j].1 == c);
            }
        }
    }
}

// a finished copy, seen from the tree as it was at the very beginning
pub proof fn lemma_graft_finish<const K: usize>(al: AArena<K>, a: AArena<K>, dom1: Set<usize>, dom0: Set<usize>, phi: Map<usize, usize>, done: Set<usize>,
    rl: usize, t: usize, fm: M, fb: V, in_dim: usize)
    requires graft_inv(al, a, dom1, phi, done, None, rl, t, fm, fb, in_dim), stack_ok(phi, done, None, Seq::<(usize, usize)>::empty()),
        forall|i: usize| #[trigger] dom0.contains(i) ==> dom1.contains(i),
    ensures grafted(al, a, dom0, rl, t, fm, fb, in_dim)
{
    reveal(terminals_ok); reveal(old_nodes_kept); reveal(frame_except); reveal(graft_inv); reveal(stack_ok); reveal(grafted);
    assert forall|p: usize| #[trigger] phi.dom().contains(p) implies done.contains(p) by {
        if !done.contains(p) {
            let j = choose|j: int| 0 <= j < Seq::<(usize, usize)>::empty().len() && (#[trigger] Seq::<(usize, usize)>::empty()[j]).0 == p;
        }
    }
    assert(done =~= phi.dom());
    assert(graft_inv(al, a, dom0, phi, phi.dom(), None, rl, t, fm, fb, in_dim));
}

// later changes elsewhere do not disturb a finished copy
pub proof fn lemma_graft_frame<const K: usize>(al: AArena<K>, a: AArena<K>, a2: AArena<K>, dom0: Set<usize>, rl: usize, t: usize, fm: M, fb: V, in_dim: usize, t2: usize)
    requires grafted(al, a, dom0, rl, t, fm, fb, in_dim), frame_except(a, a2, t2), dom0.contains(t2), t2 != t
    ensures grafted(al, a2, dom0, rl, t, fm, fb, in_dim)
{
    reveal(terminals_ok); reveal(old_nodes_kept); reveal(frame_except); reveal(graft_inv); reveal(stack_ok); reveal(grafted);
    let phi = choose|phi: Map<usize, usize>| #[trigger] graft_inv(al, a, dom0, phi, phi.dom(), None, rl, t, fm, fb, in_dim);
    assert forall|p: usize| #[trigger] phi.dom().contains(p) implies a2[phi[p]] == a[phi[p]] && a2.dom().contains(phi[p]) by {}
    assert(graft_inv(al, a2, dom0, phi, phi.dom(), None, rl, t, fm, fb, in_dim));
}

// the copy denotes lhs after f
pub proof fn lemma_graft_sem<const K: usize>(al: AArena<K>, hl: Map<usize, nat>, a: AArena<K>, h: Map<usize, nat>, dom0: Set<usize>, phi: Map<usize, usize>,
    rl: usize, t: usize, fm: M, fb: V, in_dim: usize, p: usize, x: V)
    requires graft_inv(al, a, dom0, phi, phi.dom(), None, rl, t, fm, fb, in_dim), ranked_down(al, hl), ranked_down(a, h), phi.dom().contains(p), x.len() == in_dim
    ensures tree_fn(a, h, phi[p], x) == tree_fn(al, hl, p, vadd(mv(fm, x), fb))
    decreases hl[p]
{
    reveal(terminals_ok); reveal(old_nodes_kept); reveal(frame_except); reveal(graft_inv); reveal(stack_ok); reveal(grafted);
    let src = al[p];
    let cp = a[phi[p]];
    assert(copy_ok(src, cp, fm, fb, in_dim));
    assert(kids_mirror(src, cp, phi));
    if !src.isleaf {
        lemma_label_val_eq(&cp.value.aff, &src.value.aff, x, vadd(mv(fm, x), fb), src.value.aff.mat.nrows() as int);
        let l = decide(&src.value.aff, vadd(mv(fm, x), fb));
        assert(l == decide(&cp.value.aff, x));
        if 0 <= l < K {
            match src.children[l] {
                None => {}
                Some(c) => {
                    assert(cp.children[l] == Some(phi[c]));
                    assert(hl[c] < hl[p]);
                    assert(a.dom().contains(phi[p]));
                    assert(a[phi[p]].children[l].is_some());
                    assert(h[phi[c]] < h[phi[p]]);
                    lemma_graft_sem(al, hl, a, h, dom0, phi, rl, t, fm, fb, in_dim, c, x);
                }
            }
        }
    }
}

// the whole result denotes comp_fn
pub proof fn lemma_comp_final<const K: usize>(a0: AArena<K>, h0: Map<usize, nat>, a1: AArena<K>, h1: Map<usize, nat>, ts: Seq<usize>,
    al: AArena<K>, hl: Map<usize, nat>, rl: usize, in_dim: usize, idx: usize, x: V)
    requires ranked_down(a0, h0), ranked_down(a1, h1), ranked_down(al, hl), kids_ok(a0), old_nodes_kept(a0, a1, ts), a0.dom().contains(idx), x.len() == in_dim,
        forall|j: int| 0 <= j < ts.len() ==> grafted(al, a1, a0.dom(), rl, #[trigger] ts[j], a0[ts[j]].value.aff.mat.m(), a0[ts[j]].value.aff.bias.v(), in_dim),
    ensures tree_fn(a1, h1, idx, x) == comp_fn(a0, h0, ts, al, hl, rl, idx, x)
    decreases h0[idx]
{
    reveal(terminals_ok); reveal(old_nodes_kept); reveal(frame_except); reveal(graft_inv); reveal(stack_ok); reveal(grafted);
    let nd = a0[idx];
    assert(a1.dom().contains(idx));
    if nd.isleaf {
        if ts.contains(idx) {
            let j = choose|j: int| 0 <= j < ts.len() && ts[j] == idx;
            assert(grafted(al, a1, a0.dom(), rl, ts[j], a0[ts[j]].value.aff.mat.m(), a0[ts[j]].value.aff.bias.v(), in_dim));
            let fm = nd.value.aff.mat.m();
            let fb = nd.value.aff.bias.v();
            let phi = choose|phi: Map<usize, usize>| #[trigger] graft_inv(al, a1, a0.dom(), phi, phi.dom(), None, rl, idx, fm, fb, in_dim);
            lemma_graft_sem(al, hl, a1, h1, a0.dom(), phi, rl, idx, fm, fb, in_dim, rl, x);
        } else {
            assert(a1[idx] == a0[idx]);
        }
    } else {
        assert(a1[idx] == a0[idx]);
        let l = decide(&nd.value.aff, x);
        if 0 <= l < K && nd.children[l].is_some() {
            let c = nd.children[l].unwrap();
            assert(h0[c] < h0[idx]);
            assert(a1[idx].children[l].is_some());
            assert(h1[c] < h1[idx]);
            lemma_comp_final(a0, h0, a1, h1, ts, al, hl, rl, in_dim, c, x);
        }
    }
}

// when every terminal below idx is listed, comp_fn is function composition
pub proof fn lemma_comp_all<const K: usize>(a0: AArena<K>, h0: Map<usize, nat>, ts: Seq<usize>, al: AArena<K>, hl: Map<usize, nat>, rl: usize, idx: usize, x: V)
    requires ranked_down(a0, h0), kids_ok(a0), a0.dom().contains(idx),
        forall|i: usize| a0.dom().contains(i) && #[trigger] a0[i].isleaf ==> ts.contains(i),
    ensures comp_fn(a0, h0, ts, al, hl, rl, idx, x) == and_then_fn(a0, h0, al, hl, rl, idx, x)
    decreases h0[idx]
{
    reveal(terminals_ok); reveal(old_nodes_kept); reveal(frame_except); reveal(graft_inv); reveal(stack_ok); reveal(grafted);
    let nd = a0[idx];
    if !nd.isleaf {
        let l = decide(&nd.value.aff, x);
        if 0 <= l < K && nd.children[l].is_some() {
            let c = nd.children[l].unwrap();
            assert(h0[c] < h0[idx]);
            lemma_comp_all(a0, h0, ts, al, hl, rl, c, x);
        }
    }
}


// ---------------------------------------------------------------- loop-level predicates and steps (what the loop invariants are made of)
// terminals from position t on are as they were
#[verifier::opaque]
pub open spec fn untouched<const K: usize>(a0: AArena<K>, a: AArena<K>, ts: Seq<usize>, t: int) -> bool {
    forall|j: int| t <= j < ts.len() ==> a[#[trigger] ts[j]] == a0[ts[j]]
}
// terminals before position t carry their copy of the left operand
#[verifier::opaque]
pub open spec fn grafted_upto<const K: usize>(al: AArena<K>, a: AArena<K>, a0: AArena<K>, rl: usize, ts: Seq<usize>, t: int, in_dim: usize) -> bool {
    forall|j: int| 0 <= j < t && j < ts.len() ==> grafted(al, a, a0.dom(), rl, #[trigger] ts[j], a0[ts[j]].value.aff.mat.m(), a0[ts[j]].value.aff.bias.v(), in_dim)
}
// progress of copying the children ks (label, index) of the current node: the first i are mirrored in the copy cp, the others not yet
#[verifier::opaque]
pub open spec fn kids_progress<const K: usize>(ks: Seq<(usize, usize)>, cp: AffNode<K>, phi: Map<usize, usize>, i: int) -> bool {
    &&& forall|j: int| i <= j < ks.len() ==> cp.children[(#[trigger] ks[j]).0 as int].is_none() && !phi.dom().contains(ks[j].1)
    &&& forall|j: int| 0 <= j < i && j < ks.len() ==> phi.dom().contains((#[trigger] ks[j]).1) && cp.children[ks[j].0 as int] == Some(phi[ks[j].1])
    &&& forall|l: int| 0 <= l < K && (#[trigger] cp.children[l]).is_some() ==> exists|j: int| 0 <= j < i && j < ks.len() && (#[trigger] ks[j]).0 == l
    &&& cp.isleaf <==> i == 0
}

// every node is a node of the tree as it was when this terminal was taken up, or a copy
#[verifier::opaque]
pub open spec fn dom_cover<const K: usize>(a: AArena<K>, dom0: Set<usize>, phi: Map<usize, usize>) -> bool {
    forall|i: usize| #[trigger] a.dom().contains(i) ==> dom0.contains(i) || exists|p: usize| phi.dom().contains(p) && #[trigger] phi[p] == i
}
// where the terminals of the current tree come from: untouched terminals of the old tree (not among the first t listed ones), or copies of terminals of the left operand
#[verifier::opaque]
pub open spec fn leaves_from<const K: usize>(a: AArena<K>, a0: AArena<K>, al: AArena<K>, ts: Seq<usize>, t: int) -> bool {
    forall|i: usize| a.dom().contains(i) && #[trigger] a[i].isleaf ==>
        (a0.dom().contains(i) && a0[i].isleaf && a[i] == a0[i] && (forall|j: int| 0 <= j < t && j < ts.len() ==> ts[j] != i))
        || (exists|p: usize| al.dom().contains(p) && (#[trigger] al[p]).isleaf && a[i].value.aff.mat.nrows() == al[p].value.aff.mat.nrows())
}

// taking up terminal number t
pub proof fn lemma_pick<const K: usize>(a0: AArena<K>, a: AArena<K>, ts: Seq<usize>, t: int, dl: usize, in_dim: usize)
    requires terminals_ok(a0, ts, dl), old_nodes_kept(a0, a, ts), untouched(a0, a, ts, t), leaf_ok(a), aff_shape_ok(a, in_dim), 0 <= t < ts.len()
    ensures a.dom().contains(ts[t]), a[ts[t]] == a0[ts[t]], a[ts[t]].isleaf, no_kids(a[ts[t]]), a0.dom().contains(ts[t]),
        a[ts[t]].value.aff.mat.nrows() == dl, a[ts[t]].value.aff.ok(), a[ts[t]].value.aff.mat.ncols() == in_dim,
{
    reveal(terminals_ok); reveal(old_nodes_kept); reveal(frame_except); reveal(graft_inv); reveal(stack_ok); reveal(grafted); reveal(untouched); reveal(grafted_upto); reveal(kids_progress); reveal(dom_cover); reveal(leaves_from);
    assert(a0.dom().contains(ts[t]));
    assert(a[ts[t]] == a0[ts[t]]);
}

// after the terminal received the composed root function
pub proof fn lemma_start<const K: usize>(al: AArena<K>, a_s: AArena<K>, a: AArena<K>, rl: usize, t: usize, fm: M, fb: V, in_dim: usize)
    requires al.dom().contains(rl), a_s.dom().contains(t), a_s[t].isleaf, no_kids(a_s[t]), aff_shape_ok(a_s, in_dim),
        same_shape(a_s, a), forall|i: usize| a_s.dom().contains(i) && i != t ==> a[i] == a_s[i],
        copy_ok(al[rl], a[t], fm, fb, in_dim),
    ensures graft_inv(al, a, a_s.dom(), Map::<usize, usize>::empty().insert(rl, t), Set::<usize>::empty(), None, rl, t, fm, fb, in_dim),
        stack_ok(Map::<usize, usize>::empty().insert(rl, t), Set::<usize>::empty(), None, seq![(rl, t)]),
        frame_except(a_s, a, t), aff_shape_ok(a, in_dim), dom_cover(a, a_s.dom(), Map::<usize, usize>::empty().insert(rl, t)),
{
    reveal(terminals_ok); reveal(old_nodes_kept); reveal(frame_except); reveal(graft_inv); reveal(stack_ok); reveal(grafted); reveal(untouched); reveal(grafted_upto); reveal(kids_progress); reveal(dom_cover); reveal(leaves_from);
    assert(a[t].isleaf && a[t].children == a_s[t].children);
    assert(no_kids(a[t]));
    lemma_graft_init(al, a, a_s.dom(), rl, t, fm, fb, in_dim);
    assert forall|i: usize| #![trigger a[i].value] a.dom().contains(i) implies a[i].value.aff.ok() && a[i].value.aff.mat.ncols() == in_dim
        && (!a[i].isleaf ==> 1 <= a[i].value.aff.mat.nrows() < 16 && (1usize << (a[i].value.aff.mat.nrows() as usize)) <= K) by {
        if i != t { assert(a[i] == a_s[i]); }
    }
}

// popping a work item (the stack before the pop is only known to exist)
pub proof fn lemma_pop_ex<const K: usize>(al: AArena<K>, rootl: Option<usize>, a: AArena<K>, dom0: Set<usize>, phi: Map<usize, usize>, done: Set<usize>,
    rl: usize, t: usize, fm: M, fb: V, in_dim: usize, st: Seq<(usize, usize)>, it: (usize, usize))
    requires graft_inv(al, a, dom0, phi, done, None, rl, t, fm, fb, in_dim), wf_at(al, rootl), rootl == Some(rl),
        exists|s0: Seq<(usize, usize)>| #[trigger] stack_ok(phi, done, None, s0) && s0.len() > 0 && s0.last() == it && s0.drop_last() == st,
    ensures graft_inv(al, a, dom0, phi, done, Some(it.0), rl, t, fm, fb, in_dim), stack_ok(phi, done, Some(it.0), st),
        phi.dom().contains(it.0), phi[it.0] == it.1, !done.contains(it.0),
        al.dom().contains(it.0), a.dom().contains(it.1), copy_ok(al[it.0], a[it.1], fm, fb, in_dim),
        kids_progress(kid_seq(al[it.0].children, 0), a[it.1], phi, 0),
{
    reveal(terminals_ok); reveal(old_nodes_kept); reveal(frame_except); reveal(graft_inv); reveal(stack_ok); reveal(grafted); reveal(untouched); reveal(grafted_upto); reveal(kids_progress); reveal(dom_cover); reveal(leaves_from);
    let s0 = choose|s0: Seq<(usize, usize)>| #[trigger] stack_ok(phi, done, None, s0) && s0.len() > 0 && s0.last() == it && s0.drop_last() == st;
    lemma_graft_pop(al, a, dom0, phi, done, rl, t, fm, fb, in_dim, s0);
    lemma_kid_seq_members(al[it.0].children, 0);
    let ks = kid_seq(al[it.0].children, 0);
    assert forall|j: int| 0 <= j < ks.len() implies a[it.1].children[(#[trigger] ks[j]).0 as int].is_none() && !phi.dom().contains(ks[j].1) by {
        assert(al[it.0].children[ks[j].0 as int] == Some(ks[j].1));
    }
}

// one child of the current node copied (state before: a0, i; after: a1, i + 1)
pub proof fn lemma_child_step<const K: usize>(al: AArena<K>, rootl: Option<usize>, dl: usize, a_s: AArena<K>, a0: AArena<K>, a1: AArena<K>, phi: Map<usize, usize>, done: Set<usize>,
    rl: usize, t: usize, fm: M, fb: V, in_dim: usize, st: Seq<(usize, usize)>, p0: usize, i: int, c: usize)
    requires graft_inv(al, a0, a_s.dom(), phi, done, Some(p0), rl, t, fm, fb, in_dim), stack_ok(phi, done, Some(p0), st),
        phi.dom().contains(p0), !done.contains(p0), al.dom().contains(p0), wf_at(al, rootl), aff_shape_ok(al, dl),
        frame_except(a_s, a0, t), aff_shape_ok(a0, in_dim), dom_cover(a0, a_s.dom(), phi),
        0 <= i < kid_seq(al[p0].children, 0).len(), kids_progress(kid_seq(al[p0].children, 0), a0[phi[p0]], phi, i),
        a0[phi[p0]].value.aff.mat.nrows() == al[p0].value.aff.mat.nrows(),
        child_added(a0, a1, phi[p0], kid_seq(al[p0].children, 0)[i].0, c), a1[phi[p0]].value == a0[phi[p0]].value,
        copy_ok(al[kid_seq(al[p0].children, 0)[i].1], a1[c], fm, fb, in_dim),
    ensures
        graft_inv(al, a1, a_s.dom(), phi.insert(kid_seq(al[p0].children, 0)[i].1, c), done, Some(p0), rl, t, fm, fb, in_dim),
        stack_ok(phi.insert(kid_seq(al[p0].children, 0)[i].1, c), done, Some(p0), st.push((kid_seq(al[p0].children, 0)[i].1, c))),
        frame_except(a_s, a1, t), aff_shape_ok(a1, in_dim),
        kids_progress(kid_seq(al[p0].children, 0), a1[phi[p0]], phi.insert(kid_seq(al[p0].children, 0)[i].1, c), i + 1),
        dom_cover(a1, a_s.dom(), phi.insert(kid_seq(al[p0].children, 0)[i].1, c)),
{
    reveal(terminals_ok); reveal(old_nodes_kept); reveal(frame_except); reveal(graft_inv); reveal(stack_ok); reveal(grafted); reveal(untouched); reveal(grafted_upto); reveal(kids_progress); reveal(dom_cover); reveal(leaves_from);
    let ks = kid_seq(al[p0].children, 0);
    let label = ks[i].0;
    let c0 = ks[i].1;
    let p1 = phi[p0];
    lemma_kid_seq_members(al[p0].children, 0);
    assert(al[p0].children[label as int] == Some(c0));
    assert(!phi.dom().contains(c0));
    lemma_graft_child(al, a_s, a0, a1, phi, done, rl, t, fm, fb, in_dim, st, p0, label, c0, c);
    assert(!al[p0].isleaf) by { if al[p0].isleaf { assert(no_kids(al[p0])); } }
    lemma_shape_child(al, a0, a1, in_dim, dl, p0, p1, label, c);
    let phi1 = phi.insert(c0, c);
    let cp = a1[p1];
    assert forall|j: usize| #[trigger] a1.dom().contains(j) implies a_s.dom().contains(j) || exists|p: usize| phi1.dom().contains(p) && #[trigger] phi1[p] == j by {
        if j == c { assert(phi1.dom().contains(c0) && phi1[c0] == c); }
        else {
            assert(a0.dom().contains(j));
            if !a_s.dom().contains(j) {
                let p = choose|p: usize| phi.dom().contains(p) && #[trigger] phi[p] == j;
                assert(p != c0);
                assert(phi1.dom().contains(p) && phi1[p] == j);
            }
        }
    }
    assert forall|l: int| 0 <= l < K && l != label implies cp.children[l] == a0[p1].children[l] by { assert(cp.children@[l] == a0[p1].children@[l]); }
    assert(cp.children[label as int] == Some(c)) by { assert(cp.children@[label as int] == Some(c)); }
    assert forall|j: int| i + 1 <= j < ks.len() implies cp.children[(#[trigger] ks[j]).0 as int].is_none() && !phi1.dom().contains(ks[j].1) by {
        assert(ks[i].0 < ks[j].0);
        // two different slots of p0 never hold the same child
        assert(al[p0].children[ks[j].0 as int] == Some(ks[j].1));
    }
    assert forall|j: int| 0 <= j < i + 1 && j < ks.len() implies phi1.dom().contains((#[trigger] ks[j]).1) && cp.children[ks[j].0 as int] == Some(phi1[ks[j].1]) by {
        if j < i {
            assert(ks[j].0 < ks[i].0);
            assert(al[p0].children[ks[j].0 as int] == Some(ks[j].1));
        }
    }
    assert forall|l: int| 0 <= l < K && (#[trigger] cp.children[l]).is_some() implies exists|j: int| 0 <= j < i + 1 && j < ks.len() && (#[trigger] ks[j]).0 == l by {
        if l == label { assert(ks[i].0 == l); }
        else {
            assert(a0[p1].children[l].is_some());
            let j = choose|j: int| 0 <= j < i && j < ks.len() && (#[trigger] ks[j]).0 == l;
            assert(0 <= j < i + 1 && ks[j].0 == l);
        }
    }
}

// all children of the current node copied
pub proof fn lemma_node_done<const K: usize>(al: AArena<K>, rootl: Option<usize>, a: AArena<K>, dom0: Set<usize>, phi: Map<usize, usize>, done: Set<usize>,
    rl: usize, t: usize, fm: M, fb: V, in_dim: usize, st: Seq<(usize, usize)>, p0: usize)
    requires graft_inv(al, a, dom0, phi, done, Some(p0), rl, t, fm, fb, in_dim), stack_ok(phi, done, Some(p0), st),
        phi.dom().contains(p0), al.dom().contains(p0), wf_at(al, rootl),
        kids_progress(kid_seq(al[p0].children, 0), a[phi[p0]], phi, kid_seq(al[p0].children, 0).len() as int),
    ensures graft_inv(al, a, dom0, phi, done.insert(p0), None, rl, t, fm, fb, in_dim), stack_ok(phi, done.insert(p0), None, st),
{
    reveal(terminals_ok); reveal(old_nodes_kept); reveal(frame_except); reveal(graft_inv); reveal(stack_ok); reveal(grafted); reveal(untouched); reveal(grafted_upto); reveal(kids_progress); reveal(dom_cover); reveal(leaves_from);
    lemma_mirror_from_kids(al[p0], a[phi[p0]], phi);
    lemma_graft_done(al, a, dom0, phi, done, rl, t, fm, fb, in_dim, st, p0);
}

// the copy below terminal number t - 1 is complete: back to the invariant of the outer loop
pub proof fn lemma_terminal_done<const K: usize>(al: AArena<K>, a0: AArena<K>, a_s: AArena<K>, a: AArena<K>, ts: Seq<usize>, t: int, dl: usize,
    phi: Map<usize, usize>, done: Set<usize>, rl: usize, fm: M, fb: V, in_dim: usize)
    requires 0 < t <= ts.len(), terminals_ok(a0, ts, dl), old_nodes_kept(a0, a_s, ts), untouched(a0, a_s, ts, t - 1), grafted_upto(al, a_s, a0, rl, ts, t - 1, in_dim),
        frame_except(a_s, a, ts[t - 1]),
        graft_inv(al, a, a_s.dom(), phi, done, None, rl, ts[t - 1], fm, fb, in_dim), stack_ok(phi, done, None, Seq::<(usize, usize)>::empty()),
        fm == a0[ts[t - 1]].value.aff.mat.m(), fb == a0[ts[t - 1]].value.aff.bias.v(),
        leaves_from(a_s, a0, al, ts, t - 1), dom_cover(a, a_s.dom(), phi),
    ensures old_nodes_kept(a0, a, ts), untouched(a0, a, ts, t), grafted_upto(al, a, a0, rl, ts, t, in_dim), leaves_from(a, a0, al, ts, t),
{
    reveal(terminals_ok); reveal(old_nodes_kept); reveal(frame_except); reveal(graft_inv); reveal(stack_ok); reveal(grafted); reveal(untouched); reveal(grafted_upto); reveal(kids_progress); reveal(dom_cover); reveal(leaves_from);
    let tt = ts[t - 1];
    assert(a0.dom().contains(tt) && a0[tt].isleaf);
    assert(ts.contains(tt));
    assert forall|i: usize| a0.dom().contains(i) implies #[trigger] a_s.dom().contains(i) by { }
    // provenance of the terminals
    assert forall|p: usize| #[trigger] phi.dom().contains(p) implies done.contains(p) by {
        if !done.contains(p) {
            let j = choose|j: int| 0 <= j < Seq::<(usize, usize)>::empty().len() && (#[trigger] Seq::<(usize, usize)>::empty()[j]).0 == p;
        }
    }
    assert forall|i: usize| a.dom().contains(i) && #[trigger] a[i].isleaf implies
        (a0.dom().contains(i) && a0[i].isleaf && a[i] == a0[i] && (forall|j: int| 0 <= j < t && j < ts.len() ==> ts[j] != i))
        || (exists|p: usize| al.dom().contains(p) && (#[trigger] al[p]).isleaf && a[i].value.aff.mat.nrows() == al[p].value.aff.mat.nrows()) by {
        if exists|p: usize| phi.dom().contains(p) && #[trigger] phi[p] == i {
            let p = choose|p: usize| phi.dom().contains(p) && #[trigger] phi[p] == i;
            assert(done.contains(p));
            assert(kids_mirror(al[p], a[phi[p]], phi));
            assert(copy_ok(al[p], a[phi[p]], fm, fb, in_dim));
            assert(al.dom().contains(p) && al[p].isleaf);
        } else {
            assert(a_s.dom().contains(i));
            assert(i != tt) by { if i == tt { assert(phi.dom().contains(rl) && phi[rl] == i); } }
            assert(a[i] == a_s[i]);
            assert(a_s[i].isleaf);
            if a0.dom().contains(i) && a0[i].isleaf && a_s[i] == a0[i] && (forall|j: int| 0 <= j < t - 1 && j < ts.len() ==> ts[j] != i) {
                assert forall|j: int| 0 <= j < t && j < ts.len() implies ts[j] != i by {}
            }
        }
    }
    lemma_graft_finish(al, a, a_s.dom(), a0.dom(), phi, done, rl, tt, fm, fb, in_dim);
    assert forall|j: int| 0 <= j < t && j < ts.len() implies grafted(al, a, a0.dom(), rl, #[trigger] ts[j], a0[ts[j]].value.aff.mat.m(), a0[ts[j]].value.aff.bias.v(), in_dim) by {
        if j < t - 1 {
            lemma_graft_frame(al, a_s, a, a0.dom(), rl, ts[j], a0[ts[j]].value.aff.mat.m(), a0[ts[j]].value.aff.bias.v(), in_dim, tt);
        }
    }
    assert forall|j: int| t <= j < ts.len() implies a[#[trigger] ts[j]] == a0[ts[j]] by {
        assert(a_s[ts[j]] == a0[ts[j]]);
        assert(a_s.dom().contains(ts[j]));
    }
    assert forall|i: usize| #![trigger a[i]] a0.dom().contains(i) implies a.dom().contains(i) && a[i].parent == a0[i].parent
        && (!a0[i].isleaf || !ts.contains(i) ==> a[i] == a0[i]) by {
        assert(a_s.dom().contains(i) && a_s[i].parent == a0[i].parent);
    }
}

pub proof fn lemma_outer_init<const K: usize>(al: AArena<K>, a0: AArena<K>, rl: usize, ts: Seq<usize>, in_dim: usize)
    ensures old_nodes_kept(a0, a0, ts), untouched(a0, a0, ts, 0), grafted_upto(al, a0, a0, rl, ts, 0, in_dim), leaves_from(a0, a0, al, ts, 0)
{
    reveal(terminals_ok); reveal(old_nodes_kept); reveal(frame_except); reveal(graft_inv); reveal(stack_ok); reveal(grafted); reveal(untouched); reveal(grafted_upto); reveal(kids_progress); reveal(dom_cover); reveal(leaves_from);
}

pub proof fn lemma_outer_exit<const K: usize>(al: AArena<K>, a0: AArena<K>, a: AArena<K>, rl: usize, ts: Seq<usize>, in_dim: usize)
    requires grafted_upto(al, a, a0, rl, ts, ts.len() as int, in_dim), leaves_from(a, a0, al, ts, ts.len() as int)
    ensures forall|j: int| 0 <= j < ts.len() ==> grafted(al, a, a0.dom(), rl, #[trigger] ts[j], a0[ts[j]].value.aff.mat.m(), a0[ts[j]].value.aff.bias.v(), in_dim),
        // every terminal of the result is an unlisted terminal of the old tree or has the output dimension of a terminal of the left operand
        forall|i: usize| a.dom().contains(i) && #[trigger] a[i].isleaf ==> (a0.dom().contains(i) && a0[i].isleaf && !ts.contains(i) && a[i] == a0[i])
            || (exists|p: usize| al.dom().contains(p) && (#[trigger] al[p]).isleaf && a[i].value.aff.mat.nrows() == al[p].value.aff.mat.nrows()),
{
    reveal(terminals_ok); reveal(old_nodes_kept); reveal(frame_except); reveal(graft_inv); reveal(stack_ok); reveal(grafted); reveal(untouched); reveal(grafted_upto); reveal(kids_progress); reveal(dom_cover); reveal(leaves_from);
}

// rule I8 + the facts compose needs about the list: all terminals, each once, each feeding the left operand
pub fn leaves_for<const K: usize>(t: &Tree<AffContent, K>, Ghost(dl): Ghost<usize>) -> (r: Vec<usize>)
    requires forall|i: usize| t.arena@.dom().contains(i) && #[trigger] t.arena@[i].isleaf ==> t.arena@[i].value.aff.mat.nrows() == dl
    ensures terminals_ok(t.arena@, r@, dl), forall|i: usize| t.arena@.dom().contains(i) && #[trigger] t.arena@[i].isleaf ==> r@.contains(i)
{
    let r = terminal_indices_vec(t);
    proof {
        reveal(terminals_ok);
        assert forall|j: int| 0 <= j < r@.len() implies t.arena@.dom().contains(#[trigger] r@[j]) && t.arena@[r@[j]].isleaf && t.arena@[r@[j]].value.aff.mat.nrows() == dl by {
            assert(r@.contains(r@[j]));
        }
    }
    r
}

impl<const K: usize> AffTree<K> {
//@fn src/pwl/impl_composition.rs | impl<const K: usize> AffTree<K> | generic_composition_inplace
//@attr #[verifier::exec_allows_no_decreases_clause]
//@sigsub <I, C, V> =>
//@sigsub terminals: I, => terminals: Vec<TreeIndex>,
//@sigsub _schema: C, =>
//@sigsub mut visitor: V, =>
//@sigsub where I: IntoIterator<Item = TreeIndex>, C: CompositionSchema, V: CompositionVisitor, =>
//@bodysub let iter = terminals.into_iter(); =>
//@bodysub visitor.start_composition(iter.size_hint().0); =>
//@bodysub for terminal_idx in iter { => let mut __t: usize = 0; while __t < terminals.len() { let terminal_idx = terminals[__t]; __t += 1;
//@bodysub terminal.value.aff.clone() => terminal.value.aff.clone_aff()
//@bodysub ndarray::OwnedRepr<f64> => OwnedRepr<f64>
//@bodysub C::update_terminal( => function_composition_update_terminal(
//@bodysub C::update_decision( => function_composition_update_decision(
//@bodysub visitor.start_subtree(terminal_idx); =>
//@bodysub visitor.finish_subtree(n_nodes); =>
//@bodysub visitor.finish_composition(); =>
//@bodysub let mut n_nodes = 0; =>
//@bodysub n_nodes += 1; =>
//@bodysub let child0 = edg.target_value; => let child0 = &lhs.tree.tree_node(child0_idx).unwrap().value;
//@bodysub lhs.tree.is_leaf(child0_idx).unwrap() => lhs.tree.tree_node(child0_idx).unwrap().isleaf
//@bodysub C::explore(rhs, parent1_idx, child1_idx) => true
//@spec
    requires K >= 2, K < usize::MAX,
        lhs.tree.wf(), lhs.tree.root is Some, aff_shape_ok(lhs.a(), lhs.in_dim),
        old(rhs).tree.wf(), aff_shape_ok(old(rhs).a(), old(rhs).in_dim),
        terminals_ok(old(rhs).a(), terminals@, lhs.in_dim),
    ensures
        // C04 (un-pruned composition): the result is a well-formed tree of the same input dimension, every node has a function of that input dimension
        final(rhs).tree.wf(), final(rhs).tree.root == old(rhs).tree.root, final(rhs).in_dim == old(rhs).in_dim,
        aff_shape_ok(final(rhs).a(), final(rhs).in_dim),
        // C02: the nodes of the receiving tree keep their indices and parents, its decisions and unlisted terminals are untouched
        old_nodes_kept(old(rhs).a(), final(rhs).a(), terminals@),
        // C02: below every listed terminal hangs a complete copy of the left operand (label for label), each copied node composed with the terminal's function
        forall|j: int| 0 <= j < terminals@.len() ==> grafted(lhs.a(), final(rhs).a(), old(rhs).a().dom(), lhs.tree.root.unwrap(), #[trigger] terminals@[j],
            old(rhs).a()[terminals@[j]].value.aff.mat.m(), old(rhs).a()[terminals@[j]].value.aff.bias.v(), final(rhs).in_dim),
        // C04: every terminal of the result is an unlisted old terminal or has the output dimension of a terminal of the left operand
        forall|i: usize| final(rhs).a().dom().contains(i) && #[trigger] final(rhs).a()[i].isleaf ==>
            (old(rhs).a().dom().contains(i) && old(rhs).a()[i].isleaf && !terminals@.contains(i) && final(rhs).a()[i] == old(rhs).a()[i])
            || (exists|p: usize| lhs.a().dom().contains(p) && (#[trigger] lhs.a()[p]).isleaf && final(rhs).a()[i].value.aff.mat.nrows() == lhs.a()[p].value.aff.mat.nrows()),
        // C05 (caches through un-pruned composition): witnesses that satisfied their path conditions up to 1e-8 before still do - every old node keeps its cached
        // state ("update_node keeps the cache when a terminal becomes a decision") and its path, every new node starts without cache (invariant states_kept)
        wit_inv(old(rhs).a(), old(rhs).a()) ==> wit_inv(final(rhs).a(), final(rhs).a()),
        // C02, the law: for every input the result denotes "route through the old tree, continue in the left operand at a listed terminal",
        // undefinedness included
        forall|h0: Map<usize, nat>, h1: Map<usize, nat>, hl: Map<usize, nat>, x: V|
            #![trigger tree_fn(final(rhs).a(), h1, old(rhs).tree.root.unwrap(), x), comp_fn(old(rhs).a(), h0, terminals@, lhs.a(), hl, lhs.tree.root.unwrap(), old(rhs).tree.root.unwrap(), x)]
            old(rhs).tree.root is Some && ranked_down(old(rhs).a(), h0) && ranked_down(final(rhs).a(), h1) && ranked_down(lhs.a(), hl) && x.len() == old(rhs).in_dim ==>
            tree_fn(final(rhs).a(), h1, old(rhs).tree.root.unwrap(), x) == comp_fn(old(rhs).a(), h0, terminals@, lhs.a(), hl, lhs.tree.root.unwrap(), old(rhs).tree.root.unwrap(), x),
        // ... which is function composition h(x) = g(f(x)) when all terminals are listed (as compose does)
        (forall|i: usize| old(rhs).a().dom().contains(i) && #[trigger] old(rhs).a()[i].isleaf ==> terminals@.contains(i)) ==>
        forall|h0: Map<usize, nat>, h1: Map<usize, nat>, hl: Map<usize, nat>, x: V|
            #![trigger tree_fn(final(rhs).a(), h1, old(rhs).tree.root.unwrap(), x), and_then_fn(old(rhs).a(), h0, lhs.a(), hl, lhs.tree.root.unwrap(), old(rhs).tree.root.unwrap(), x)]
            old(rhs).tree.root is Some && ranked_down(old(rhs).a(), h0) && ranked_down(final(rhs).a(), h1) && ranked_down(lhs.a(), hl) && x.len() == old(rhs).in_dim ==>
            tree_fn(final(rhs).a(), h1, old(rhs).tree.root.unwrap(), x) == and_then_fn(old(rhs).a(), h0, lhs.a(), hl, lhs.tree.root.unwrap(), old(rhs).tree.root.unwrap(), x),
//@hint start
        let ghost rl = lhs.tree.root.unwrap();
        proof { lemma_outer_init(lhs.a(), rhs.a(), rl, terminals@, rhs.in_dim); lemma_sk_init(rhs.a()); }
//@hint loop 1 after
        proof {
            let a0 = old(rhs).a(); let a1 = rhs.a(); let al = lhs.a(); let ts = terminals@;
            lemma_outer_exit(al, a0, a1, rl, ts, rhs.in_dim);
            if wit_inv(a0, a0) {
                assert(old_kept(a0, a1)) by { reveal(old_nodes_kept); }
                lemma_wit_grow(a0, a1);
            }
            if old(rhs).tree.root is Some {
                let r0 = old(rhs).tree.root.unwrap();
                assert forall|h0: Map<usize, nat>, h1: Map<usize, nat>, hl: Map<usize, nat>, x: V|
                    ranked_down(a0, h0) && ranked_down(a1, h1) && ranked_down(al, hl) && x.len() == old(rhs).in_dim implies
                    #[trigger] tree_fn(a1, h1, r0, x) == #[trigger] comp_fn(a0, h0, ts, al, hl, rl, r0, x) by {
                    lemma_comp_final(a0, h0, a1, h1, ts, al, hl, rl, old(rhs).in_dim, r0, x);
                }
                if forall|i: usize| a0.dom().contains(i) && #[trigger] a0[i].isleaf ==> ts.contains(i) {
                    assert forall|h0: Map<usize, nat>, h1: Map<usize, nat>, hl: Map<usize, nat>, x: V|
                        ranked_down(a0, h0) && ranked_down(a1, h1) && ranked_down(al, hl) && x.len() == old(rhs).in_dim implies
                        #[trigger] tree_fn(a1, h1, r0, x) == #[trigger] and_then_fn(a0, h0, al, hl, rl, r0, x) by {
                        lemma_comp_final(a0, h0, a1, h1, ts, al, hl, rl, old(rhs).in_dim, r0, x);
                        lemma_comp_all(a0, h0, ts, al, hl, rl, r0, x);
                    }
                }
            }
        }
//@loop 1
            invariant
                K >= 2, K < usize::MAX, lhs.tree.wf(), lhs.tree.root is Some, aff_shape_ok(lhs.a(), lhs.in_dim),
                terminals_ok(old(rhs).a(), terminals@, lhs.in_dim),
                0 <= __t <= terminals@.len(), rl == lhs.tree.root.unwrap(),
                rhs.tree.wf(), rhs.tree.root == old(rhs).tree.root, rhs.in_dim == old(rhs).in_dim, aff_shape_ok(rhs.a(), rhs.in_dim),
                // decisions and unlisted terminals untouched; terminals still to come untouched; the earlier ones carry their copy
                old_nodes_kept(old(rhs).a(), rhs.a(), terminals@), untouched(old(rhs).a(), rhs.a(), terminals@, __t as int),
                grafted_upto(lhs.a(), rhs.a(), old(rhs).a(), rl, terminals@, __t as int, rhs.in_dim),
                leaves_from(rhs.a(), old(rhs).a(), lhs.a(), terminals@, __t as int),
                states_kept(old(rhs).a(), rhs.a()), old(rhs).a().dom().subset_of(rhs.a().dom()),
//@hint loop 1 start
            let ghost a_start = rhs.a();
            proof { lemma_pick(old(rhs).a(), a_start, terminals@, __t as int, lhs.in_dim, rhs.in_dim); }
//@hint after rhs.update_node(terminal_idx, new_root_aff).unwrap();
            let ghost mut phi: Map<usize, usize> = Map::<usize, usize>::empty().insert(rl, terminal_idx);
            let ghost mut done: Set<usize> = Set::<usize>::empty();
            proof {
                broadcast use axiom_array2_shape;
                lemma_start(lhs.a(), a_start, rhs.a(), rl, terminal_idx, terminal_aff.mat.m(), terminal_aff.bias.v(), rhs.in_dim);
                lemma_sk_update(old(rhs).a(), a_start, rhs.a(), terminal_idx);
            }
//@loop 2
                invariant
                    K >= 2, K < usize::MAX, lhs.tree.wf(), lhs.tree.root is Some, aff_shape_ok(lhs.a(), lhs.in_dim),
                terminals_ok(old(rhs).a(), terminals@, lhs.in_dim),
                    0 < __t <= terminals@.len(), terminal_idx == terminals@[__t - 1], rl == lhs.tree.root.unwrap(),
                    rhs.tree.wf(), rhs.tree.root == old(rhs).tree.root, rhs.in_dim == old(rhs).in_dim, aff_shape_ok(rhs.a(), rhs.in_dim),
                    // what held when this terminal was taken up, and what has changed since
                    old_nodes_kept(old(rhs).a(), a_start, terminals@), untouched(old(rhs).a(), a_start, terminals@, __t - 1),
                    grafted_upto(lhs.a(), a_start, old(rhs).a(), rl, terminals@, __t - 1, rhs.in_dim),
                    leaves_from(a_start, old(rhs).a(), lhs.a(), terminals@, __t - 1), dom_cover(rhs.a(), a_start.dom(), phi),
                    frame_except(a_start, rhs.a(), terminal_idx),
                    terminal_aff.ok(), terminal_aff.mat.ncols() == rhs.in_dim, terminal_aff.mat.nrows() == lhs.in_dim,
                    terminal_aff.mat.m() == old(rhs).a()[terminal_idx].value.aff.mat.m(), terminal_aff.bias.v() == old(rhs).a()[terminal_idx].value.aff.bias.v(),
                    graft_inv(lhs.a(), rhs.a(), a_start.dom(), phi, done, None, rl, terminal_idx, terminal_aff.mat.m(), terminal_aff.bias.v(), rhs.in_dim),
                    stack_ok(phi, done, None, stack@),
                    states_kept(old(rhs).a(), rhs.a()), old(rhs).a().dom().subset_of(rhs.a().dom()),
                ensures stack@.len() == 0,
//@hint loop 2 start
                proof {
                    lemma_pop_ex(lhs.a(), lhs.tree.root, rhs.a(), a_start.dom(), phi, done, rl, terminal_idx, terminal_aff.mat.m(), terminal_aff.bias.v(), rhs.in_dim,
                        stack@, (parent0_idx, parent1_idx));
                    lemma_kid_seq_len(lhs.a()[parent0_idx].children, 0);
                }
//@loop 3
                    invariant
                        K >= 2, K < usize::MAX, lhs.tree.wf(), lhs.tree.root is Some, aff_shape_ok(lhs.a(), lhs.in_dim),
                terminals_ok(old(rhs).a(), terminals@, lhs.in_dim),
                        0 < __t <= terminals@.len(), terminal_idx == terminals@[__t - 1], rl == lhs.tree.root.unwrap(),
                    rhs.tree.wf(), rhs.tree.root == old(rhs).tree.root, rhs.in_dim == old(rhs).in_dim, aff_shape_ok(rhs.a(), rhs.in_dim),
                    // what held when this terminal was taken up, and what has changed since
                    old_nodes_kept(old(rhs).a(), a_start, terminals@), untouched(old(rhs).a(), a_start, terminals@, __t - 1),
                    grafted_upto(lhs.a(), a_start, old(rhs).a(), rl, terminals@, __t - 1, rhs.in_dim),
                    leaves_from(a_start, old(rhs).a(), lhs.a(), terminals@, __t - 1), dom_cover(rhs.a(), a_start.dom(), phi),
                    frame_except(a_start, rhs.a(), terminal_idx),
                    terminal_aff.ok(), terminal_aff.mat.ncols() == rhs.in_dim, terminal_aff.mat.nrows() == lhs.in_dim,
                    terminal_aff.mat.m() == old(rhs).a()[terminal_idx].value.aff.mat.m(), terminal_aff.bias.v() == old(rhs).a()[terminal_idx].value.aff.bias.v(),
                        graft_inv(lhs.a(), rhs.a(), a_start.dom(), phi, done, Some(parent0_idx), rl, terminal_idx, terminal_aff.mat.m(), terminal_aff.bias.v(), rhs.in_dim),
                        stack_ok(phi, done, Some(parent0_idx), stack@),
                        states_kept(old(rhs).a(), rhs.a()), old(rhs).a().dom().subset_of(rhs.a().dom()),
                        // the node being expanded and its copy
                        phi.dom().contains(parent0_idx), phi[parent0_idx] == parent1_idx, !done.contains(parent0_idx),
                        lhs.a().dom().contains(parent0_idx), rhs.a().dom().contains(parent1_idx),
                        rhs.a()[parent1_idx].value.aff.mat.nrows() == lhs.a()[parent0_idx].value.aff.mat.nrows(),
                        0 <= __i <= __kids@.len(), __kids@.len() == kid_seq(lhs.a()[parent0_idx].children, 0).len(), __kids@.len() <= K,
                        forall|j: int| 0 <= j < __kids@.len() ==> (#[trigger] __kids@[j]).source_idx == parent0_idx
                            && __kids@[j].label == kid_seq(lhs.a()[parent0_idx].children, 0)[j].0 && __kids@[j].target_idx == kid_seq(lhs.a()[parent0_idx].children, 0)[j].1,
                        created_children == __i, skipped_children == 0,
                        kids_progress(kid_seq(lhs.a()[parent0_idx].children, 0), rhs.a()[parent1_idx], phi, __i as int),
//@hint loop 3 start
                    let ghost a_pre = rhs.a();
                    proof {
                        reveal(kids_progress);
                        lemma_kid_seq_members(lhs.a()[parent0_idx].children, 0);
                        assert(__kids@[__i as int].label == kid_seq(lhs.a()[parent0_idx].children, 0)[__i as int].0);
                    }
//@hint after let child1_idx = rhs .tree .add_child_node(parent1_idx, label,
                    proof {
                        broadcast use axiom_array2_shape;
                        lemma_child_step(lhs.a(), lhs.tree.root, lhs.in_dim, a_start, a_pre, rhs.a(), phi, done, rl, terminal_idx, terminal_aff.mat.m(), terminal_aff.bias.v(), rhs.in_dim,
                            stack@, parent0_idx, __i as int, child1_idx);
                        phi = phi.insert(child0_idx, child1_idx);
                        lemma_sk_add(old(rhs).a(), a_pre, rhs.a(), parent1_idx, label, child1_idx);
                    }
//@hint loop 3 after
                proof {
                    lemma_node_done(lhs.a(), lhs.tree.root, rhs.a(), a_start.dom(), phi, done, rl, terminal_idx, terminal_aff.mat.m(), terminal_aff.bias.v(), rhs.in_dim, stack@, parent0_idx);
                    done = done.insert(parent0_idx);
                }
//@hint loop 2 after
            proof {
                assert(stack@ =~= Seq::<(usize, usize)>::empty());
                lemma_terminal_done(lhs.a(), old(rhs).a(), a_start, rhs.a(), terminals@, __t as int, lhs.in_dim, phi, done, rl,
                    terminal_aff.mat.m(), terminal_aff.bias.v(), rhs.in_dim);
            }
//@end

//@fn src/pwl/impl_composition.rs | impl<const K: usize> AffTree<K> | compose
//@sigsub <const PRUNE: bool, const VERBOSE: bool> =>
//@bodysub if PRUNE && VERBOSE { AffTree::<K>::generic_composition_inplace( other, self, self.tree.terminal_indices().collect_vec(), FunctionCompositionInfeasible {}, CompositionConsole::new(), ); } else if PRUNE && !VERBOSE { AffTree::<K>::generic_composition_inplace( other, self, self.tree.terminal_indices().collect_vec(), FunctionCompositionInfeasible {}, NoOpVis {}, ); } else if !PRUNE && VERBOSE { AffTree::<K>::generic_composition_inplace( other, self, self.tree.terminal_indices().collect_vec(), FunctionComposition {}, CompositionConsole::new(), ); } else { => {
//@bodysub self.tree.terminal_indices().collect_vec(), FunctionComposition {}, NoOpVis {}, => leaves_for(&self.tree, Ghost(other.in_dim)),
//@spec
    requires K >= 2, K < usize::MAX,
        other.tree.wf(), other.tree.root is Some, aff_shape_ok(other.a(), other.in_dim),
        old(self).tree.wf(), aff_shape_ok(old(self).a(), old(self).in_dim),
        // dimension-compatible: every terminal of the receiver produces an input of `other`
        forall|i: usize| old(self).a().dom().contains(i) && #[trigger] old(self).a()[i].isleaf ==> old(self).a()[i].value.aff.mat.nrows() == other.in_dim,
    ensures
        final(self).tree.wf(), final(self).tree.root == old(self).tree.root, final(self).in_dim == old(self).in_dim,
        aff_shape_ok(final(self).a(), final(self).in_dim),
        // C02 for compose::<false, false>: h(x) = g(f(x)) for every input, undefinedness included (f = receiver before, g = other)
        forall|h0: Map<usize, nat>, h1: Map<usize, nat>, hl: Map<usize, nat>, x: V|
            #![trigger tree_fn(final(self).a(), h1, old(self).tree.root.unwrap(), x), and_then_fn(old(self).a(), h0, other.a(), hl, other.tree.root.unwrap(), old(self).tree.root.unwrap(), x)]
            old(self).tree.root is Some && ranked_down(old(self).a(), h0) && ranked_down(final(self).a(), h1) && ranked_down(other.a(), hl) && x.len() == old(self).in_dim ==>
            tree_fn(final(self).a(), h1, old(self).tree.root.unwrap(), x) == and_then_fn(old(self).a(), h0, other.a(), hl, other.tree.root.unwrap(), old(self).tree.root.unwrap(), x),
        // the nodes of the receiver keep their indices
        forall|i: usize| old(self).a().dom().contains(i) ==> #[trigger] final(self).a().dom().contains(i),
        // C05: witnesses that were right stay right (cached states of the receiver's nodes are kept, copied nodes start without cache)
        wit_inv(old(self).a(), old(self).a()) ==> wit_inv(final(self).a(), final(self).a()),
        // every terminal of the result has the output dimension of a terminal of `other`
        forall|i: usize| final(self).a().dom().contains(i) && #[trigger] final(self).a()[i].isleaf ==>
            exists|p: usize| other.a().dom().contains(p) && (#[trigger] other.a()[p]).isleaf && final(self).a()[i].value.aff.mat.nrows() == other.a()[p].value.aff.mat.nrows(),
//@hint start
        proof { reveal(old_nodes_kept); }
//@end
}

} // verus!
fn main() {}
