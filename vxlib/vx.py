"""vx — mechanical extraction of functions from /repo into a Verus file.

A unit template (units/<unit>.rs) is ordinary Verus source with `//@` directives:

  //@include prelude/foo.rs
  //@item <file> | <struct|enum|type> <Name>
  //@fn <file> | <impl header, or - for a free function> | <fn name>
  //@spec
  //    requires ..., ensures ...          (verbatim Verus clauses)
  //@loop <n>
  //    invariant ..., decreases ...        (inserted after the n-th loop header of the body)
  //@hint start | end | after <stmt prefix> | before <stmt prefix> | loop <n> start | loop <n> end
  //    proof { ... }                       (ghost code only)
  //@trusted                                (keep signature, body := unimplemented!(), external_body)
  //@end

The function *signature and body are copied byte-for-byte from the repository*; afterwards only the
declared rewrite rules (DESIGN.md §2.1: D1-D6, I1-I9, T1) are applied, each counted.
"""
import os
import re
from collections import Counter

from .rustlex import (LostAnchor, mask, match_close, norm_ws, iter_impls, find_fns, find_item,
                      find_block_open)


class Unsupported(Exception):
    pass


# --------------------------------------------------------------------------------------------
# statement structure of a block


BLOCK_KW = re.compile(r'\s*(if|for|while|loop|match|unsafe)\b|\s*\{')


def split_statements(m: str, lo: int, hi: int):
    """Top-level statements of the block body m[lo:hi] -> list of (start, end_exclusive).
    The tail expression (if any) is the last element."""
    res = []
    i = lo
    n = hi
    while i < n:
        while i < n and m[i] in ' \t\n':
            i += 1
        if i >= n:
            break
        s = i
        blocklike = bool(BLOCK_KW.match(m, s)) and not re.match(r'\s*\{', m[s:s + 2]) or m[s] == '{'
        is_let = bool(re.match(r'let\b', m[s:s + 4]))
        while i < n:
            c = m[i]
            if c in '([{':
                j = match_close(m, i)
                if c == '{' and blocklike and not is_let:
                    # does the statement end here?
                    k = j + 1
                    while k < n and m[k] in ' \t\n':
                        k += 1
                    rest = m[k:k + 5]
                    if re.match(r'else\b', rest):
                        i = k + 4
                        continue
                    if k < n and (m[k] in '.?' or (m[k] == ';')):
                        i = j + 1
                        continue
                    i = j + 1
                    break
                i = j + 1
                continue
            if c == ';':
                i += 1
                break
            i += 1
        res.append((s, i))
    return res


def find_statements(m: str, lo: int, hi: int, prefix: str):
    """All statements (document order, nested blocks included) whose normalised text starts with `prefix`."""
    want = norm_ws(prefix)
    res = []
    for (s, e) in split_statements(m, lo, hi):
        if norm_ws(m[s:e]).startswith(want):
            res.append((s, e))
            continue
        # descend into nested blocks
        i = s
        while i < e:
            if m[i] == '{':
                j = match_close(m, i)
                res.extend(find_statements(m, i + 1, j, prefix))
                i = j + 1
            elif m[i] in '([':
                # closures / struct literals in call arguments may contain blocks
                j = match_close(m, i)
                k = i + 1
                while k < j:
                    if m[k] == '{':
                        jj = match_close(m, k)
                        res.extend(find_statements(m, k + 1, jj, prefix))
                        k = jj + 1
                    else:
                        k += 1
                i = j + 1
            else:
                i += 1
    return res


def find_statement(m: str, lo: int, hi: int, prefix: str, nth: int = 1):
    """The nth (1-based) statement whose normalised text starts with `prefix`. Returns (start, end) or None."""
    r = find_statements(m, lo, hi, prefix)
    return r[nth - 1] if len(r) >= nth else None


LOOP_RE = re.compile(r'(?<![A-Za-z0-9_\'])(for|while|loop)\b')


def find_loops(m: str, lo: int, hi: int):
    """(header_start, body_open, body_close) for each loop in order of appearance."""
    res = []
    for mt in LOOP_RE.finditer(m, lo, hi):
        p = mt.start()
        # `for` in `for<'a>` bounds or `impl X for Y` cannot appear inside fn bodies we handle
        o = find_block_open(m, p)
        if o < 0 or o >= hi:
            continue
        res.append((p, o, match_close(m, o)))
    return res


# --------------------------------------------------------------------------------------------
# rewrite rules


def split_args(s: str):
    """split a macro/call argument string on top-level commas"""
    m = mask(s)
    res, d, last = [], 0, 0
    for i, c in enumerate(m):
        if c in '([{':
            d += 1
        elif c in ')]}':
            d -= 1
        elif c == ',' and d == 0:
            res.append(s[last:i])
            last = i + 1
    if s[last:].strip():
        res.append(s[last:])
    return res


def _rewrite_macros(body: str, rules: Counter) -> str:
    # D1 logging, D2 debug_assert
    while True:
        m = mask(body)
        mt = re.search(r'(?<![A-Za-z0-9_])(debug|trace|info|warn|error|debug_assert|debug_assert_eq)!\s*\(', m)
        if not mt:
            break
        o = m.index('(', mt.start())
        c = match_close(m, o)
        k = c + 1
        while k < len(m) and m[k] in ' \t':
            k += 1
        rule = 'D2' if mt.group(1).startswith('debug_assert') else 'D1'
        rules[rule] += 1
        if k < len(m) and m[k] == ';':
            body = body[:mt.start()] + body[k + 1:]
        else:
            body = body[:mt.start()] + '()' + body[c + 1:]
    # D6 assert_eq!/assert_ne! -> assert!(A == B); assert!(c, msg..) -> assert!(c)
    pos = 0
    while True:
        m = mask(body)
        mt = re.compile(r'(?<![A-Za-z0-9_])(assert_eq|assert_ne|assert)!\s*\(').search(m, pos)
        if not mt:
            break
        o = m.index('(', mt.start())
        c = match_close(m, o)
        args = split_args(body[o + 1:c])
        kind = mt.group(1)
        if kind == 'assert':
            if len(args) > 1:
                new = 'assert!(' + args[0].strip() + ')'
                rules['D6'] += 1
            else:
                new = body[mt.start():c + 1]
        else:
            op = '==' if kind == 'assert_eq' else '!='
            new = 'assert!(' + args[0].strip() + ' ' + op + ' ' + args[1].strip() + ')'
            rules['D6'] += 1
        body = body[:mt.start()] + new + body[c + 1:]
        pos = mt.start() + len(new)
    # D3 capacity hints
    while True:
        m = mask(body)
        mt = re.search(r'(?<![A-Za-z0-9_])(Vec|VecDeque)::with_capacity\s*\(', m)
        if not mt:
            break
        o = m.index('(', mt.start())
        c = match_close(m, o)
        body = body[:mt.start()] + mt.group(1) + '::new()' + body[c + 1:]
        rules['D3'] += 1
    # D3b: drop `let capacity = ...;` if `capacity` no longer used
    for mt in list(re.finditer(r'\n[ \t]*let\s+(capacity)\s*=[^;]*;', mask(body))):
        name = mt.group(1)
        rest = mask(body)[:mt.start()] + mask(body)[mt.end():]
        if not re.search(r'(?<![A-Za-z0-9_])' + name + r'(?![A-Za-z0-9_])', rest):
            body = body[:mt.start()] + body[mt.end():]
            rules['D3'] += 1
            break
    # D3c: X.reserve(E);
    body2 = re.sub(r'\n[ \t]*[A-Za-z_][A-Za-z0-9_\.]*\.reserve\([^;]*\);', '', body)
    if body2 != body:
        rules['D3'] += 1
        body = body2
    return body


def _for_loops(body: str):
    """yield (match_start, header_text, body_open, body_close) for `for` loops"""
    m = mask(body)
    for mt in re.finditer(r'(?<![A-Za-z0-9_])for\b', m):
        o = find_block_open(m, mt.start())
        if o < 0:
            continue
        yield mt.start(), body[mt.start():o], o, match_close(m, o)


def _rewrite_iters(body: str, rules: Counter) -> str:
    """I-rules: iterator-adapter `for` headers over [Option<usize>; K] -> index loops.
    Generated loops use the reserved names __i (index) and __n (counter)."""
    changed = True
    while changed:
        changed = False
        for (s, header, o, c) in _for_loops(body):
            h = norm_ws(header)
            inner = body[o + 1:c]
            new = None
            # I1: for (A, B) in enumerate(&E) {
            mt = re.fullmatch(r'for\((\w+),(\w+)\)in enumerate\(&([\w\.]+)\)', h)
            if mt:
                a, b, e = mt.groups()
                new = (f'for {a} in 0..{e}.len() {{ let {b} = &{e}[{a}];' + inner + '}')
                rules['I1'] += 1
            # I2: for (A, B) in E.iter().rev().flatten().enumerate() {
            mt = mt or None
            if new is None:
                mt = re.fullmatch(r'for\((\w+),(\w+)\)in ([\w\.]+)\.iter\(\)\.rev\(\)\.flatten\(\)\.enumerate\(\)', h)
                if mt:
                    a, b, e = mt.groups()
                    new = (f'let mut __n: usize = 0; let mut __i: usize = {e}.len(); while __i > 0 {{ __i -= 1; '
                           f'if let Some({b}) = &{e}[__i] {{ let {a} = __n;' + inner + ' __n += 1; } }')
                    rules['I2'] += 1
            # I3: for (A, B) in enumerate(E.iter()).rev() {
            if new is None:
                mt = re.fullmatch(r'for\((\w+),(\w+)\)in enumerate\(([\w\.]+)\.iter\(\)\)\.rev\(\)', h)
                if mt:
                    a, b, e = mt.groups()
                    new = (f'let mut __i: usize = {e}.len(); while __i > 0 {{ __i -= 1; '
                           f'let {a} = __i; let {b} = &{e}[__i];' + inner + '}')
                    rules['I3'] += 1
            # I4: for (A, B) in E.iter().flatten().enumerate() {
            if new is None:
                mt = re.fullmatch(r'for\((\w+),(\w+)\)in ([\w\.]+)\.iter\(\)\.flatten\(\)\.enumerate\(\)', h)
                if mt:
                    a, b, e = mt.groups()
                    new = (f'let mut __n: usize = 0; let mut __i: usize = 0; while __i < {e}.len() {{ '
                           f'if let Some({b}) = &{e}[__i] {{ let {a} = __n;' + inner + ' __n += 1; } __i += 1; }')
                    rules['I4'] += 1
            # I5: for X in E.into_iter().flatten() {
            if new is None:
                mt = re.fullmatch(r'for (\w+) in ([\w\.]+)\.into_iter\(\)\.flatten\(\)', h)
                if mt:
                    x, e = mt.groups()
                    new = (f'let mut __i: usize = 0; while __i < {e}.len() {{ '
                           f'if let Some({x}) = {e}[__i] {{' + inner + '} __i += 1; }')
                    rules['I5'] += 1
            # I9: for X in &mut E { *X = V; }
            if new is None:
                mt = re.fullmatch(r'for (\w+) in ?&mut ([\w\.]+)', h)
                if mt:
                    x, e = mt.groups()
                    mi = re.fullmatch(r'\s*\*' + x + r'\s*=\s*([^;]+);\s*', inner)
                    if mi:
                        new = (f'let mut __i: usize = 0; while __i < {e}.len() {{ {e}[__i] = {mi.group(1)}; __i += 1; }}')
                        rules['I9'] += 1
            # I7 (loop form): for X in T.children(I) [.rev()] {
            if new is None:
                mt = re.fullmatch(r'for (\w+) in ([\w\.]+)\.children\(([^()]*(?:\([^()]*\))?[^()]*)\)(\.rev\(\))?', h)
                if mt:
                    x, t, arg, rev = mt.groups()
                    if rev:
                        new = (f'let __kids = children_vec(&{t}, {arg}); let mut __i: usize = __kids.len(); while __i > 0 {{ __i -= 1; '
                               f'let {x} = __kids[__i];' + inner + '}')
                    else:
                        new = (f'let __kids = children_vec(&{t}, {arg}); let mut __i: usize = 0; while __i < __kids.len() {{ '
                               f'let {x} = __kids[__i];' + inner + ' __i += 1; }')
                    rules['I7'] += 1
            # I7c: for (P, X) in T.children(I).enumerate() {
            if new is None:
                mt = re.fullmatch(r'for\((\w+),(\w+)\)in ([\w\.]+)\.children\(([^()]*)\)\.enumerate\(\)', h)
                if mt:
                    pz, x, t, arg = mt.groups()
                    new = (f'let __kids = children_vec(&{t}, {arg}); let mut __i: usize = 0; while __i < __kids.len() {{ '
                           f'let {pz} = __i; let {x} = __kids[__i];' + inner + ' __i += 1; }')
                    rules['I7'] += 1
            # I8: for X in T.terminal_indices().collect_vec() {   (index order of the arena, via a trusted helper)
            if new is None:
                mt = re.fullmatch(r'for (\w+) in ([\w\.]+)\.terminal_indices\(\)\.collect_vec\(\)', h)
                if mt:
                    x, t = mt.groups()
                    new = (f'let __v = terminal_indices_vec(&{t}); let mut __i: usize = 0; while __i < __v.len() {{ '
                           f'let {x} = __v[__i];' + inner + ' __i += 1; }')
                    rules['I8'] += 1
            # I10: for _ in 0..E {   (Verus wants a named loop variable)
            if new is None:
                mt = re.fullmatch(r'for _ in (.+)', h)
                if mt:
                    new = 'for __k in ' + header[header.index(' in ') + 4:] + '{' + inner + '}'
                    rules['I10'] += 1
            if new is not None:
                body = body[:s] + new + body[c + 1:]
                changed = True
                break
    # I6: E.iter().filter(|&&x| x.is_some()).count()
    pat = re.compile(r'([\w\.\[\]]+?)\s*\.children\s*\.iter\(\)\s*\.filter\(\|&&(\w+)\|\s*\2\.is_some\(\)\)\s*\.count\(\)')
    body, k = pat.subn(lambda q: f'count_some(&{q.group(1)}.children)', body)
    rules['I6'] += k
    # I6b: E.iter().flatten().count()   (number of occupied slots of [Option<_>; K])
    pat = re.compile(r'([\w\.]+?)\s*\.iter\(\)\s*\.flatten\(\)\s*\.count\(\)')
    body, k = pat.subn(lambda q: f'count_some(&{q.group(1)})', body)
    rules['I6'] += k
    # I7 (expression form): T.children(I).map(|e| e.target_idx).collect_vec()
    pat = re.compile(r'([\w\.]+?)\s*\.children\(([^()]*)\)\s*\.map\(\|(\w+)\|\s*\3\.target_idx\)\s*\.collect_vec\(\)')
    body, k = pat.subn(lambda q: f'children_idx_vec(&{q.group(1)}, {q.group(2)})', body)
    rules['I7'] += k
    return body


def apply_rewrites(body: str, rules: Counter) -> str:
    body = _rewrite_macros(body, rules)
    body = _rewrite_iters(body, rules)
    return body


# --------------------------------------------------------------------------------------------
# locating functions


class Repo:
    def __init__(self, root):
        self.root = root
        self.cache = {}

    def load(self, rel):
        if rel not in self.cache:
            p = os.path.join(self.root, rel)
            if not os.path.exists(p):
                raise LostAnchor(f'file {rel} missing')
            src = open(p).read()
            # cut test modules (never extracted, and may contain look-alike items)
            self.cache[rel] = (src, mask(src))
        return self.cache[rel]

    def find_fn(self, rel, impl_header, name, nth=0):
        src, m = self.load(rel)
        cands = []
        if impl_header.strip() == '-':
            # free function: depth 0 of file (or of a non-test mod)
            cands = [(s, o, c) for (s, o, c) in find_fns(src, m, 0, len(m), name)]
        elif impl_header.strip().startswith('macro '):
            # function written inside an arm of `macro_rules! NAME` (any nesting depth inside the macro)
            ms, me = find_item(src, m, 'macro_rules', impl_header.strip()[len('macro '):].strip())
            for mt in re.finditer(r'(?<![A-Za-z0-9_])fn\s+' + re.escape(name) + r'(?![A-Za-z0-9_])', m[ms:me]):
                p0 = ms + mt.start()
                o = find_block_open(m, p0)
                if o < 0:
                    continue
                cands.append((p0, o, match_close(m, o)))
        else:
            want = norm_ws(impl_header)
            for (h, o, c) in iter_impls(src, m):
                if h == want:
                    cands += find_fns(src, m, o + 1, c, name)
        if len(cands) <= nth:
            raise LostAnchor(f'fn {name} in `{impl_header.strip()}` of {rel} not found')
        s, o, c = cands[nth]
        line = src.count('\n', 0, s) + 1
        return src[s:o], src[o + 1:c], line

    def find_item(self, rel, kind, name):
        src, m = self.load(rel)
        s, e = find_item(src, m, kind, name)
        return src[s:e], src.count('\n', 0, s) + 1


# --------------------------------------------------------------------------------------------
# splicing


def name_return(sig: str, ret: str, rules: Counter) -> str:
    """D5: -> T  becomes  -> (ret: T).  `where` clauses are kept after the type."""
    m = mask(sig)
    # find the top-level '->' after the closing paren of the argument list
    p = m.index('(')
    c = match_close(m, p)
    k = m.find('->', c)
    if k < 0:
        return sig.rstrip() + ' '
    w = re.search(r'\bwhere\b', m[k:])
    end = k + w.start() if w else len(sig)
    ty = sig[k + 2:end].strip()
    rules['D5'] += 1
    return sig[:k] + f'-> ({ret}: {ty}) ' + (sig[end:] if w else '')


def strip_sig(sig: str) -> str:
    # remove line comments / doc comments inside the signature span
    return re.sub(r'//[^\n]*', '', sig)


class FnBlock:
    def __init__(self, rel, impl, name):
        self.rel, self.impl, self.name = rel, impl, name
        self.ret = 'r'
        self.spec = ''
        self.loops = {}
        self.hints = []   # (where, text)
        self.trusted = False
        self.attrs = []
        self.nth = 0
        self.rename = None
        self.sigsub = []
        self.bodysub = []
        self.contract_loops = set()   # loops whose invariant states the property itself: its failure is contract-level


def render_fn(repo: Repo, fb: FnBlock, rules: Counter, info: dict, canary: bool = False) -> str:
    sig, body, line = repo.find_fn(fb.rel, fb.impl, fb.name, fb.nth)
    sig = strip_sig(sig)
    if fb.rename:
        sig = re.sub(r'\bfn\s+' + re.escape(fb.name) + r'(?![A-Za-z0-9_])', 'fn ' + fb.rename, sig, count=1)
    for (a, b) in fb.sigsub:
        pat = re.compile(r'\s*'.join(re.escape(tok) for tok in a.split()))
        if not pat.search(sig):
            raise LostAnchor(f'signature text `{a}` of fn {fb.name} not found')
        sig = pat.sub(lambda _m: b, sig)
        rules['S1'] += 1
    sig = name_return(sig, fb.ret, rules)
    info['functions'].append({'fn': fb.name, 'impl': fb.impl.strip(), 'file': fb.rel, 'line': line,
                              'trusted': fb.trusted})
    out = []
    for a in fb.attrs:
        out.append(a)
    if fb.trusted:
        out.append('#[verifier::external_body]')
        out.append(sig.rstrip())
        out.append(fb.spec.rstrip())
        out.append('{ unimplemented!() }')
        return '\n'.join(out) + '\n'
    body = apply_rewrites(body, rules)
    # S3 / F1: explicit textual substitutions declared in the template (each must occur)
    for (a, b, optional) in fb.bodysub:
        # whitespace-insensitive literal match
        pat = re.compile(r'\s*'.join(re.escape(tok) for tok in a.split()))
        k = len(pat.findall(body))
        if k == 0:
            if optional:
                continue
            raise LostAnchor(f'body text `{a}` of fn {fb.name} not found')
        rules['F1'] += k
        body = pat.sub(lambda _m: b, body)
    # hints & loop invariants: collect insertions on the rewritten body
    m = mask(body)
    ins = []  # (pos, text)
    loops = find_loops(m, 0, len(m))
    for n, text in fb.loops.items():
        if n < 1 or n > len(loops):
            raise LostAnchor(f'loop {n} of fn {fb.name} not found (body has {len(loops)} loops)')
        (p, o, c) = loops[n - 1]
        if n in fb.contract_loops:
            ins.append((o, '\n/*CONTRACT-INV-BEGIN*/' + text.rstrip() + '/*CONTRACT-INV-END*/\n'))
        else:
            ins.append((o, '\n' + text.rstrip() + '\n'))
    for where, text0 in fb.hints:
        text = '/*HINT-BEGIN*/' + text0 + '/*HINT-END*/'
        w = where.split(None, 1)
        if w[0] == 'start':
            ins.append((0, '\n' + text))
        elif w[0] == 'end':
            st = split_statements(m, 0, len(m))
            if st and not m[st[-1][0]:st[-1][1]].rstrip().endswith(';') and not BLOCK_KW.match(m, st[-1][0]):
                ins.append((st[-1][0], text + '\n'))
            elif st and not m[st[-1][0]:st[-1][1]].rstrip().endswith(';'):
                # block-like tail expression (if/match): value-producing -> insert before it
                ins.append((st[-1][0], text + '\n'))
            else:
                ins.append((len(body), '\n' + text))
        elif w[0].split('#')[0] in ('after', 'before'):
            # `after#k <stmt>`: the k-th statement starting with that text
            kind, _, nth = w[0].partition('#')
            r = find_statement(m, 0, len(m), w[1], int(nth) if nth else 1)
            if not r:
                raise LostAnchor(f'statement `{w[1]}` ({w[0]}) of fn {fb.name} not found')
            ins.append((r[1] if kind == 'after' else r[0], '\n' + text + '\n'))
        elif w[0] == 'loop':
            n, pos = w[1].split()
            n = int(n)
            if n < 1 or n > len(loops):
                raise LostAnchor(f'loop {n} of fn {fb.name} not found')
            (p, o, c) = loops[n - 1]
            if pos == 'start':
                ins.append((o + 1, '\n' + text + '\n'))
            elif pos == 'end':
                ins.append((c, '\n' + text + '\n'))
            elif pos == 'before':
                ins.append((p, text + '\n'))
            elif pos == 'after':
                ins.append((c + 1, '\n' + text + '\n'))
            else:
                raise Unsupported('bad hint position ' + where)
        else:
            raise Unsupported('bad hint position ' + where)
    if canary:
        # vacuity guard: assert(false) at function entry and at the start of every loop body
        cid = info.setdefault('canaries', [])
        cid.append((fb.name, 'entry'))
        ins.append((0, f'\nassert(false); /*CANARY {len(cid) - 1}*/\n'))
        for (p, o, c) in loops:
            cid.append((fb.name, 'loop'))
            ins.append((o + 1, f'\nassert(false); /*CANARY {len(cid) - 1}*/\n'))
    # stable order: by position; for equal positions keep directive order
    ins = sorted(enumerate(ins), key=lambda t: (t[1][0], t[0]))
    res, last = [], 0
    for _, (p, t) in ins:
        res.append(body[last:p])
        res.append(t)
        last = p
    res.append(body[last:])
    body = ''.join(res)
    out.append(sig.rstrip())
    if fb.spec.strip():
        out.append(fb.spec.rstrip())
    out.append('{' + body + '}')
    return '\n'.join(out) + '\n'


ATTR_RE = re.compile(r'#\[(error|from|rustfmt::skip|inline[^\]]*|deprecated[^\]]*|allow[^\]]*|doc[^\]]*)(\([^\]]*\))?\]\s*')
DERIVE_RE = re.compile(r'#\[derive\(([^)]*)\)\]\s*')


def render_item(repo: Repo, rel, kind, name, opts, rules: Counter, info: dict) -> str:
    text, line = repo.find_item(rel, kind, name)
    # D4/D1: strip attributes and doc comments inside the item; derives are reduced to the
    # marker traits Verus understands (Debug always, Clone/Copy on request)
    keep = set() if 'no-debug' in opts else {'Debug'}
    for o in opts:
        if o.startswith('derive='):
            keep |= set(o[7:].split(','))
    text = re.sub(r'^\s*///[^\n]*\n', '', text, flags=re.M)
    text = re.sub(r'#\[error\((?:[^()]|\([^()]*\))*\)\]\s*', '', text, flags=re.S)
    text, k = ATTR_RE.subn('', text)
    rules['D4'] += k
    # the derive attribute precedes the item: look it up in the source just before the item
    src, m = repo.load(rel)
    s, e = find_item(src, m, kind, name)
    pre = m[max(0, s - 300):s]
    dm = None
    for dm in DERIVE_RE.finditer(pre):
        pass
    derives = []
    if dm and not re.search(r'[;}]', pre[dm.end():]):
        derives = [d.strip() for d in dm.group(1).split(',') if d.strip() in keep]
        rules['D4'] += 1
    for o in opts:
        if o.startswith('drop-field='):
            # S4: a field the verified functions never touch (interior-mutable scratch space) is dropped
            fld = o[len('drop-field='):]
            text, k = re.subn(r'\n[^\n]*\b' + re.escape(fld) + r'\s*:[^\n]*,', '', text)
            if k != 1:
                raise LostAnchor(f'field {fld} of {kind} {name} not found')
            rules['S4'] += 1
    if 'pub-fields' in opts:
        text = re.sub(r'pub\(super\)\s+', 'pub ', text)
        # S2: field visibility widened to `pub` (Verus treats a datatype with a private field as opaque)
        text = re.sub(r'^(\s+)(?!pub\b)([a-z_][A-Za-z0-9_]*\s*:)', r'\1pub \2', text, flags=re.M)
        rules['S2'] += 1
    info['items'].append({'item': f'{kind} {name}', 'file': rel, 'line': line})
    head = ('#[derive(' + ', '.join(derives) + ')]\n') if derives else ''
    return head + text + '\n'


def parse_fn_block(lines, i):
    """lines[i] is a `//@fn ...` line; returns (FnBlock, index after the block's //@end)"""
    st = lines[i].strip()
    parts = [x.strip() for x in st[len('//@fn '):].split('|')]
    fb = FnBlock(parts[0], parts[1], parts[2])
    for extra in parts[3:]:
        if extra.startswith('nth='):
            fb.nth = int(extra[4:])
        elif extra.startswith('as='):
            fb.rename = extra[3:]
    i += 1
    cur = None
    buf = []

    def flush():
        nonlocal cur, buf
        text = '\n'.join(buf)
        if cur is None:
            pass
        elif cur[0] == 'spec':
            fb.spec = text
        elif cur[0] == 'loop':
            fb.loops[int(cur[1])] = text
        elif cur[0] == 'hint':
            fb.hints.append((cur[1], text))
        cur, buf = None, []

    def two(s2, key):
        body = s2[len(key):]
        if ' => ' in body:
            x, y = body.split(' => ', 1)
        else:
            x, y = body.rstrip('=>').rstrip(), ''
        return x.strip(), y.strip()

    while i < len(lines):
        s2 = lines[i].strip()
        if s2.startswith('//@end'):
            flush()
            i += 1
            break
        if s2.startswith('//@spec'):
            flush()
            cur = ('spec',)
        elif s2.startswith('//@loop '):
            flush()
            cur = ('loop', s2.split()[1])
            if len(s2.split()) > 2 and s2.split()[2] == 'contract':
                fb.contract_loops.add(int(s2.split()[1]))
        elif s2.startswith('//@hint '):
            flush()
            cur = ('hint', s2[len('//@hint '):].strip())
        elif s2.startswith('//@ret '):
            flush()
            fb.ret = s2.split()[1]
        elif s2.startswith('//@trusted'):
            flush()
            fb.trusted = True
        elif s2.startswith('//@attr '):
            flush()
            fb.attrs.append(s2[len('//@attr '):])
        elif s2.startswith('//@bodysub? '):
            flush()
            x, y = two(s2, '//@bodysub? ')
            fb.bodysub.append((x, y, True))
        elif s2.startswith('//@bodysub '):
            flush()
            x, y = two(s2, '//@bodysub ')
            fb.bodysub.append((x, y, False))
        elif s2.startswith('//@sigsub '):
            flush()
            x, y = two(s2, '//@sigsub ')
            fb.sigsub.append((x, y))
        elif s2.startswith('//@'):
            raise Unsupported('unknown directive ' + s2)
        else:
            buf.append(lines[i])
        i += 1
    return fb, i


def build_unit(template_path: str, repo_root: str, verif_root: str, canary: bool = False):
    """-> (rust_text, info).  Raises LostAnchor / Unsupported."""
    repo = Repo(repo_root)
    rules = Counter()
    info = {'functions': [], 'items': [], 'includes': []}
    def expand(path, depth=0):
        res = []
        for ln in open(path).read().split('\n'):
            st = ln.strip()
            if st.startswith('//@include '):
                inc = st[len('//@include '):].strip()
                info['includes'].append(inc)
                if depth > 8:
                    raise Unsupported('include depth')
                res.extend(expand(os.path.join(verif_root, inc), depth + 1))
            else:
                res.append(ln)
        return res
    lines = expand(template_path)
    out = []
    i = 0
    fn_spans = []  # (first_line, last_line, fn name) in output, 1-based
    while i < len(lines):
        ln = lines[i]
        st = ln.strip()
        if st.startswith('//@item '):
            parts = [x.strip() for x in st[len('//@item '):].split('|')]
            rel, kn = parts[0], parts[1]
            kind, name = kn.split()
            out.extend(render_item(repo, rel, kind, name, parts[2:], rules, info).split('\n'))
            i += 1
        elif st.startswith('//@assumed '):
            # contract of a function that is proved in another unit: same directive block (signature rewrites + //@spec), body dropped
            aparts = [x.strip() for x in st[len('//@assumed '):].split('|')]
            src_tpl, fname = aparts[0], aparts[1]
            impl_sub = aparts[2] if len(aparts) > 2 else None      # optional: text that must occur in the impl header (disambiguation)
            tl = open(os.path.join(verif_root, src_tpl)).read().split('\n')   # the file itself, not its includes
            hit = [k for k, l in enumerate(tl) if l.strip().startswith('//@fn ') and
                   (lambda ps: ((ps[2] == fname and not any(x.startswith('as=') for x in ps[3:])) or ('as=' + fname) in ps[3:]) and (impl_sub is None or impl_sub in ps[1]))([x.strip() for x in l.strip()[len('//@fn '):].split('|')])]
            if len(hit) != 1:
                raise LostAnchor(f'assumed contract {fname} not found exactly once in {src_tpl}')
            fb, _ = parse_fn_block(tl, hit[0])
            fb.trusted = True
            fb.attrs = [x for x in fb.attrs if 'exec_allows_no_decreases_clause' not in x]
            info.setdefault('assumed_from', []).append({'fn': fname, 'proved_in': src_tpl})
            i += 1
            out.append(f'// contract assumed here, discharged in {src_tpl}')
            out.extend(render_fn(repo, fb, rules, info, canary).split('\n'))
        elif st.startswith('//@fn '):
            fb, i = parse_fn_block(lines, i)
            first = len(out) + 1
            out.extend(render_fn(repo, fb, rules, info, canary).split('\n'))
            fn_spans.append((first, len(out), fb.name))
        else:
            out.append(ln)
            i += 1
    info['rules'] = dict(rules)
    info['fn_spans'] = fn_spans
    final = '\n'.join(out)
    # line ranges of ghost hint blocks (errors inside them are proof-internal, not contract-level)
    spans = []
    pos = 0
    while True:
        a = final.find('/*HINT-BEGIN*/', pos)
        if a < 0:
            break
        b = final.find('/*HINT-END*/', a)
        spans.append((final.count('\n', 0, a) + 1, final.count('\n', 0, b) + 1))
        pos = b + 1
    info['hint_spans'] = spans
    cspans = []
    pos = 0
    while True:
        a = final.find('/*CONTRACT-INV-BEGIN*/', pos)
        if a < 0:
            break
        b = final.find('/*CONTRACT-INV-END*/', a)
        cspans.append((final.count('\n', 0, a) + 1, final.count('\n', 0, b) + 1))
        pos = b + 1
    info['contract_inv_spans'] = cspans
    return final, info
