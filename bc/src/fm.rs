//! Exact LP oracle: Fourier–Motzkin elimination over rationals.
use crate::q::{dot, Q};

#[derive(Clone, Debug, PartialEq, Eq, Hash)]
pub struct Row {
    pub a: Vec<Q>,
    pub b: Q,
    pub strict: bool,
}

impl Row {
    pub fn le(a: Vec<Q>, b: Q) -> Row {
        Row { a, b, strict: false }
    }
    pub fn lt(a: Vec<Q>, b: Q) -> Row {
        Row { a, b, strict: true }
    }
    /// a.x <= b  negated:  a.x > b  ==  -a.x < -b
    pub fn negated(&self) -> Row {
        Row { a: self.a.iter().map(|x| -*x).collect(), b: -self.b, strict: !self.strict }
    }
    pub fn holds(&self, x: &[Q]) -> bool {
        let v = dot(&self.a, x);
        if self.strict {
            v < self.b
        } else {
            v <= self.b
        }
    }
    fn normalized(&self) -> Row {
        // scale so that the first non-zero coefficient has absolute value 1
        let mut s = Q::ONE;
        for c in &self.a {
            if !c.is_zero() {
                s = c.abs();
                break;
            }
        }
        Row { a: self.a.iter().map(|x| *x / s).collect(), b: self.b / s, strict: self.strict }
    }
}

/// Is { x | all rows hold } non-empty?
pub fn feasible(rows: &[Row], dim: usize) -> bool {
    let mut cur: Vec<Row> = rows.iter().map(|r| r.normalized()).collect();
    for k in 0..dim {
        let mut pos = vec![];
        let mut neg = vec![];
        let mut next = vec![];
        for r in cur.into_iter() {
            assert_eq!(r.a.len(), dim);
            if r.a[k] > Q::ZERO {
                pos.push(r);
            } else if r.a[k] < Q::ZERO {
                neg.push(r);
            } else {
                next.push(r);
            }
        }
        for p in &pos {
            for n in &neg {
                let sp = Q::ONE / p.a[k];
                let sn = Q::ONE / (-n.a[k]);
                let a: Vec<Q> = (0..dim).map(|j| p.a[j] * sp + n.a[j] * sn).collect();
                let b = p.b * sp + n.b * sn;
                next.push(Row { a, b, strict: p.strict || n.strict }.normalized());
            }
        }
        // drop duplicates / dominated constant rows
        let mut dedup: Vec<Row> = vec![];
        for r in next {
            if r.a.iter().all(|c| c.is_zero()) {
                let ok = if r.strict { Q::ZERO < r.b } else { Q::ZERO <= r.b };
                if !ok {
                    return false;
                }
                continue;
            }
            if !dedup.contains(&r) {
                dedup.push(r);
            }
        }
        assert!(dedup.len() < 20000, "FM blow-up");
        cur = dedup;
    }
    for r in &cur {
        let ok = if r.strict { Q::ZERO < r.b } else { Q::ZERO <= r.b };
        if !ok {
            return false;
        }
    }
    true
}

pub fn interior_nonempty(rows: &[Row], dim: usize) -> bool {
    let s: Vec<Row> = rows.iter().map(|r| Row { a: r.a.clone(), b: r.b, strict: true }).collect();
    feasible(&s, dim)
}

/// P ⊆ { x | q holds }  (P given by rows)
pub fn implies(rows: &[Row], q: &Row, dim: usize) -> bool {
    let mut s = rows.to_vec();
    s.push(q.negated());
    !feasible(&s, dim)
}

pub fn subset(p: &[Row], q: &[Row], dim: usize) -> bool {
    q.iter().all(|r| implies(p, r, dim))
}

pub fn same_set(p: &[Row], q: &[Row], dim: usize) -> bool {
    subset(p, q, dim) && subset(q, p, dim)
}
