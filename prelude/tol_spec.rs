// ---- prelude/tol_spec.rs : the library's containment tolerance (Polytope::contains, src/linalg/affine.rs): row i of {x | m x <= b} holds for w up to 1e-8 ----
pub open spec fn tol() -> real { 1real / 100000000real }
pub open spec fn tol_row(m: M, b: V, w: V, i: int) -> bool { b[i] - dotp(m[i], w, w.len() as int) >= -tol() }
pub open spec fn tol_sat(m: M, b: V, w: V) -> bool { forall|i: int| 0 <= i < m.len() ==> #[trigger] tol_row(m, b, w, i) }
// ---- end tol_spec ----
