// unit pwl_from_poly — C17: AffTree::from_poly (src/pwl/afftree.rs): the chain tree of a polytope (used as pre-/post-condition)
use vstd::prelude::*;
use std::marker::PhantomData;
use std::mem;
use std::ops::{Add, Sub, Mul, Div, Neg};
verus! {
global size_of usize == 8;

//@include prelude/inc_pwl_core.rs
//@include prelude/chain_spec.rs
//@item src/pwl/afftree.rs | enum InputError

impl InputError {
//@fn src/pwl/afftree.rs | impl InputError | expect_dim
//@spec
    ensures r is Ok <==> expected == found
//@end
}

impl<D: Data<Elem = A>, A: Float> AffFuncBase<PolytopeT, D> {
//@fn src/linalg/affine.rs | impl<D: Data<Elem = A>, A: Float> AffFuncBase<PolytopeT, D> | n_constraints
//@spec
    ensures r == self.mat.nrows()
//@hint start
        broadcast use axiom_array2_shape;
//@end
}

impl<const K: usize> AffTree<K> {
//@fn src/pwl/afftree.rs | impl<const K: usize> AffTree<K> | with_capacity
//@bodysub polytope_cache: RefCell::new(Vec::new()), =>
//@spec
    requires K >= 2, K < usize::MAX
    ensures r.tree.wf(), r.tree.root == Some(0usize), r.a().dom() =~= set![0usize], r.in_dim == dim,
        r.a()[0].isleaf, no_kids(r.a()[0]), r.a()[0].parent is None,
//@end
}

//@include prelude/chain_build_spec.rs
// the rows of a polytope as a RowSpec
pub open spec fn rows_of(p: Polytope) -> RowSpec { RowSpec { n: p.mat.nrows() as int, dim: p.mat.ncols() as int, sat: |k: int, x: V| p.row_sat(k, x) } }
// what from_poly has to denote
pub open spec fn poly_fn(p: Polytope, ft: AffFunc, ff: Option<AffFunc>, x: V) -> Option<V> {
    if p.sat(x) { Some(ft.ap(x)) } else { match ff { Some(g) => Some(g.ap(x)), None => None } }
}
pub proof fn lemma_rows_of_all(p: Polytope, x: V)
    ensures rows_of(p).all(x) == p.sat(x)
{
    let r = rows_of(p);
    if p.sat(x) { assert forall|k: int| 0 <= k < r.n implies #[trigger] (r.sat)(k, x) by { assert(p.row_sat(k, x)); } }
    if r.all(x) { assert forall|k: int| 0 <= k < p.mat.nrows() implies #[trigger] p.row_sat(k, x) by { assert((r.sat)(k, x)); } }
}
// rule I14: `poly.row_iter()` with `.as_function().to_owned()` applied to every item: the rows of the polytope as owned one-row functions (TRUSTED helper)
#[verifier::external_body]
pub fn poly_row_fns(p: &Polytope) -> (r: Vec<AffFunc>)
    ensures r@.len() == p.mat.nrows(), forall|j: int| 0 <= j < r@.len() ==> row_fn_of(#[trigger] r@[j], rows_of(*p), j)
{ unimplemented!() }


impl AffTree<2> {
//@fn src/pwl/afftree.rs | impl AffTree<2> | from_poly
//@bodysub let mut iter = poly.row_iter(); => let __rows = poly_row_fns(&poly);
//@bodysub let aff = iter.next().unwrap().as_function().to_owned(); => let aff = __rows[0].clone_aff();
//@bodysub for decision in iter { => let mut __j: usize = 1; while __j < __rows.len() { let decision = &__rows[__j]; __j += 1;
//@bodysub let aff = decision.as_function().to_owned(); => let aff = decision.clone_aff();
//@bodysub aff_false.clone() => aff_false.clone_aff()
//@spec
    requires poly.ok(), func_true.ok(), poly.mat.nrows() < usize::MAX,
        match func_false { Some(g) => g.ok() && g.mat.nrows() == func_true.mat.nrows(), None => true },
        poly.mat.nrows() > 0,    // asserted by the code
    ensures
        // dimension mismatch is the only error
        r is Err <==> poly.mat.ncols() != func_true.mat.ncols() || (func_false is Some && func_false.unwrap().mat.ncols() != poly.mat.ncols()),
        r matches Ok(t) ==> t.tree.wf() && t.tree.root == Some(0usize) && t.in_dim == func_true.mat.ncols() && aff_shape_ok(t.a(), t.in_dim)
            && (forall|i: usize| t.a().dom().contains(i) && #[trigger] t.a()[i].isleaf ==> t.a()[i].value.aff.mat.nrows() == func_true.mat.nrows())
            // inside the polytope: func_true; outside: func_false, or undefined when there is none
            && (forall|h: Map<usize, nat>, x: V| ranked_down(t.a(), h) && x.len() == t.in_dim ==>
                #[trigger] tree_fn(t.a(), h, 0, x) == poly_fn(poly, func_true, match func_false { Some(g) => Some(*g), None => None }, x)),
//@hint start
        broadcast use axiom_array2_shape;
        let ghost dim = func_true.mat.ncols() as usize;
        let ghost out = func_true.mat.nrows() as usize;
        let ghost ff: Option<AffFunc> = match func_false { Some(g) => Some(*g), None => None };
        broadcast use axiom_array2_shape;
//@hint before tree.tree.node_value_mut(parent).unwrap().aff = aff;
        let ghost a_w = tree.a();
        proof { lemma_row_fn_clone(__rows@[0], aff, rows_of(poly), 0); }
//@hint after tree.tree.node_value_mut(parent).unwrap().aff = aff;
        let ghost mut c: Seq<usize> = seq![0usize];
        proof {
            assert(same_shape(a_w, tree.a()));
            lemma_same_shape_wf(a_w, tree.a(), Some(0usize));
            assert(no_kids(tree.a()[0])) by { assert(tree.a()[0].children == a_w[0].children); }
            lemma_fp_init(tree.a(), rows_of(poly), ff, dim, out);
        }
//@loop 1
            invariant
                poly.ok(), func_true.ok(), poly.mat.ncols() == dim, func_true.mat.ncols() == dim, func_true.mat.nrows() == out,
                ff == (match func_false { Some(g) => Some(*g), None => None }),
                ff is Some ==> ff.unwrap().ok() && ff.unwrap().mat.ncols() == dim && ff.unwrap().mat.nrows() == out,
                __rows@.len() == poly.mat.nrows(), forall|j: int| 0 <= j < __rows@.len() ==> row_fn_of(#[trigger] __rows@[j], rows_of(poly), j),
                1 <= __j <= __rows@.len(),
                tree.tree.wf(), tree.tree.root == Some(0usize), tree.in_dim == dim,
                fp_inv(tree.a(), c, rows_of(poly), ff, dim, out), c.len() == __j, parent == c.last(),
            decreases __rows@.len() - __j
//@hint loop 1 start
            let ghost a0 = tree.a();
            proof { lemma_fp_facts(tree.a(), c, rows_of(poly), ff, dim, out); }
//@hint before let aff = decision.clone_aff();
            let ghost a1 = tree.a();
//@hint after parent = tree.add_child_node(parent, 1, aff).unwrap();
            proof {
                lemma_row_fn_clone(__rows@[__j - 1], tree.a()[parent].value.aff, rows_of(poly), __j - 1);
                lemma_fp_step(a0, a1, tree.a(), c, rows_of(poly), ff, dim, out, a1[c.last()].children[0].unwrap(), parent);
                c = c.push(parent);
            }
//@hint loop 1 after
        let ghost b0 = tree.a();
        proof { lemma_fp_facts(tree.a(), c, rows_of(poly), ff, dim, out); }
//@hint before tree.add_child_node(parent, 1, func_true).unwrap();
        let ghost b1 = tree.a();
//@hint after tree.add_child_node(parent, 1, func_true).unwrap();
        proof {
            let t1 = tree.a()[c.last()].children[1].unwrap();
            lemma_fp_complete(b0, b1, tree.a(), c, rows_of(poly), func_true, ff, dim, out, b1[c.last()].children[0].unwrap(), t1);
            lemma_fp_final(tree.a(), c, rows_of(poly), func_true, ff, dim, t1);
            assert forall|h: Map<usize, nat>, x: V| ranked_down(tree.a(), h) && x.len() == dim implies #[trigger] tree_fn(tree.a(), h, 0, x) == poly_fn(poly, func_true, ff, x) by {
                lemma_rows_of_all(poly, x);
            }
        }
//@end
}

} // verus!
fn main() {}
